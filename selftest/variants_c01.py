"""C01 self-validation variants."""
IM = "optuna/storages/_in_memory.py"
JS = "optuna/storages/journal/_storage.py"
RDB = "optuna/storages/_rdb/storage.py"
MODELS = "optuna/storages/_rdb/models.py"
CS = "optuna/storages/_cached_storage.py"
GC = "optuna/storages/_grpc/client.py"
SV = "optuna/storages/_grpc/servicer.py"
DI = "optuna/distributions.py"

VARIANTS = [
    dict(id="c01-signature-renamed-kw", prop="C01", file=CS, expect="R01.1",
         old="    def set_trial_user_attr(self, trial_id: int, key: str, value: Any) -> None:\n        self._backend.set_trial_user_attr(trial_id, key=key, value=value)",
         new="    def set_trial_user_attr(self, trial_id: int, name: str, value: Any) -> None:\n        self._backend.set_trial_user_attr(trial_id, key=name, value=value)"),
    dict(id="c01-inmem-no-guard-intermediate", prop="C01", file=IM, expect="R01.2",
         old="            trial = self._get_trial(trial_id)\n            self.check_trial_is_updatable(trial_id, trial.state)\n\n            trial = copy.copy(trial)\n            trial.intermediate_values",
         new="            trial = self._get_trial(trial_id)\n\n            trial = copy.copy(trial)\n            trial.intermediate_values"),
    dict(id="c01-inmem-guard-after-write", prop="C01", file=IM, expect="R01.2",
         old="            trial = self._get_trial(trial_id)\n            self.check_trial_is_updatable(trial_id, trial.state)\n\n            trial = copy.copy(trial)\n            trial.system_attrs = copy.copy(trial.system_attrs)\n            trial.system_attrs[key] = value\n            self._set_trial(trial_id, trial)\n",
         new="            trial = self._get_trial(trial_id)\n            state0 = trial.state\n\n            trial = copy.copy(trial)\n            trial.system_attrs = copy.copy(trial.system_attrs)\n            trial.system_attrs[key] = value\n            self._set_trial(trial_id, trial)\n            self.check_trial_is_updatable(trial_id, state0)\n"),
    dict(id="c01-rdb-attr-no-guard", prop="C01", file=RDB, expect="R01.2",
         old="        trial = models.TrialModel.find_or_raise_by_id(trial_id, session)\n        self.check_trial_is_updatable(trial_id, trial.state)\n\n        if self.engine.name == \"mysql\":",
         new="        trial = models.TrialModel.find_or_raise_by_id(trial_id, session)\n\n        if self.engine.name == \"mysql\":"),
    dict(id="c01-rdb-guard-only-non-sqlite", prop="C01", file=RDB, expect="R01.2",
         old="        trial = models.TrialModel.find_or_raise_by_id(trial_id, session)\n        self.check_trial_is_updatable(trial_id, trial.state)\n\n        (\n            stored_value,",
         new="        trial = models.TrialModel.find_or_raise_by_id(trial_id, session)\n        if self.engine.name != \"sqlite\":\n            self.check_trial_is_updatable(trial_id, trial.state)\n\n        (\n            stored_value,"),
    dict(id="c01-journal-user-attr-no-guard", prop="C01", file=JS, expect="R01.2",
         old="        if self._trial_exists_and_updatable(trial_id, log):\n            assert len(log[\"user_attr\"]) == 1\n", new="        if trial_id in self._trials:\n            assert len(log[\"user_attr\"]) == 1\n"),
    dict(id="c01-cached-not-pure", prop="C01", file=CS, expect="R01.2",
         old="        self._backend.set_trial_intermediate_value(trial_id, step, intermediate_value)\n",
         new="        if intermediate_value == intermediate_value:\n            self._backend.set_trial_intermediate_value(trial_id, step, intermediate_value)\n"),
    dict(id="c01-servicer-wrong-backend-method", prop="C01", file=SV, expect="R01",
         old="            self._backend.set_trial_system_attr(trial_id, key, value)\n", new="            self._backend.set_trial_user_attr(trial_id, key, value)\n"),
    dict(id="c01-inmem-delete-keeps-name", prop="C01", file=IM, expect="R01.4",
         old="            study_name = self._studies[study_id].name\n            del self._study_name_to_id[study_name]\n", new=""),
    dict(id="c01-inmem-delete-keeps-trial-ids", prop="C01", file=IM, expect="R01.4",
         old="            for trial in self._studies[study_id].trials:\n                del self._trial_id_to_study_id_and_number[trial._trial_id]\n", new=""),
    dict(id="c01-rdb-no-cascade", prop="C01", file=MODELS, expect="R01.4",
         old="        TrialModel, backref=orm.backref(\"user_attributes\", cascade=\"all, delete-orphan\")", new="        TrialModel, backref=orm.backref(\"user_attributes\")"),
    dict(id="c01-rdb-template-drops-intermediate", prop="C01", file=RDB, expect="R01.5",
         old="            for step, intermediate_value in template_trial.intermediate_values.items():\n                self._set_trial_intermediate_value_without_commit(\n                    session, trial.trial_id, step, intermediate_value\n                )\n\n", new=""),
    dict(id="c01-journal-template-drops-system-attrs", prop="C01", file=JS, expect="R01",
         old="            log[\"system_attrs\"] = template_trial.system_attrs\n", new=""),
    dict(id="c01-proto-drops-datetime-complete", prop="C01", file=SV, expect="R01.5",
         old="        datetime_complete=(\n            trial.datetime_complete.strftime(DATETIME_FORMAT) if trial.datetime_complete else \"\"\n        ),\n", new=""),
    dict(id="c01-from-proto-drops-user-attrs", prop="C01", file=SV, expect="R01.5",
         old="        user_attrs={key: json.loads(value) for key, value in trial.user_attributes.items()},\n        system_attrs={key: json.loads(value) for key, value in trial.system_attributes.items()},\n        intermediate_values={step: value for step, value in trial.intermediate_values.items()},\n    )\n",
         new="        user_attrs={},\n        system_attrs={key: json.loads(value) for key, value in trial.system_attributes.items()},\n        intermediate_values={step: value for step, value in trial.intermediate_values.items()},\n    )\n").__class__(
         id="c01-journal-reader-drops-values", prop="C01", file=JS, expect="R01",
         old="            datetime_complete=datetime_complete,\n            values=log.get(\"values\", None),\n        )", new="            datetime_complete=datetime_complete,\n        )"),
    dict(id="c01-journal-missing-arm", prop="C01", file=JS, expect="R01.6",
         old="            elif op == JournalOperation.SET_TRIAL_SYSTEM_ATTR:\n                self._apply_set_trial_system_attr(log)\n", new=""),
    dict(id="c01-journal-key-renamed-writer", prop="C01", file=JS, expect="R01.6",
         old="            \"step\": step,\n            \"intermediate_value\": intermediate_value,\n        }", new="            \"step\": step,\n            \"value\": intermediate_value,\n        }"),
    dict(id="c01-journal-conditional-key-made-required", prop="C01", file=JS, expect="R01.6",
         old="        if \"datetime_complete\" in log:\n            datetime_complete = datetime.datetime.fromisoformat(log[\"datetime_complete\"])\n        else:\n            datetime_complete = None\n",
         new="        datetime_complete = datetime.datetime.fromisoformat(log[\"datetime_complete\"])\n"),
    dict(id="c01-journal-complete-ts-only-for-complete", prop="C01", file=JS, expect="R01",
         old="        elif state.is_finished():\n            log[\"datetime_complete\"] = datetime.datetime.now().isoformat(timespec=\"microseconds\")",
         new="        elif state == TrialState.COMPLETE:\n            log[\"datetime_complete\"] = datetime.datetime.now().isoformat(timespec=\"microseconds\")"),
    dict(id="c01-servicer-code-changed", prop="C01", file=SV, expect="R01.7",
         old="        except UpdateFinishedTrialError as e:\n            context.abort(code=grpc.StatusCode.FAILED_PRECONDITION, details=str(e))\n        return api_pb2.SetTrialIntermediateValueReply()",
         new="        except UpdateFinishedTrialError as e:\n            context.abort(code=grpc.StatusCode.INVALID_ARGUMENT, details=str(e))\n        return api_pb2.SetTrialIntermediateValueReply()"),
    dict(id="c01-client-arm-dropped", prop="C01", file=GC, expect="R01.7",
         old="            if e.code() == grpc.StatusCode.NOT_FOUND:\n                raise KeyError from e\n            raise\n        return response.study_name",
         new="            raise\n        return response.study_name"),
    dict(id="c01-servicer-keyerror-unmapped", prop="C01", file=SV, expect="R01.7",
         old="        try:\n            trial = self._backend.get_trial(trial_id)\n        except KeyError as e:\n            context.abort(code=grpc.StatusCode.NOT_FOUND, details=str(e))\n",
         new="        trial = self._backend.get_trial(trial_id)\n"),
    dict(id="c01-state-table-swapped", prop="C01", file=SV, expect="R01.7",
         old="    if state == api_pb2.PRUNED:\n        return TrialState.PRUNED\n    if state == api_pb2.FAIL:\n        return TrialState.FAIL",
         new="    if state == api_pb2.PRUNED:\n        return TrialState.FAIL\n    if state == api_pb2.FAIL:\n        return TrialState.PRUNED"),
    dict(id="c01-f4-shape-reintroduced", prop="C01", file=SV, expect="R01.8",
         old="        values = list(request.values) if request.values else None\n", new="        values = request.values\n"),
    dict(id="c01-servicer-raw-included-ids", prop="C01", file=SV, expect="R01.8",
         old="            trials = self._backend.get_all_trials(study_id, deepcopy=False)\n", new="            trials = self._backend.get_all_trials(study_id, deepcopy=False, states=request.included_trial_ids or None)\n"),
    dict(id="c01-inmem-number-from-id", prop="C01", file=IM, expect="R01.9",
         old="            trial.number = len(self._studies[study_id].trials)\n", new="            trial.number = trial_id\n"),
    dict(id="c01-journal-number-global", prop="C01", file=JS, expect="R01.9",
         old="            number=len(self._study_id_to_trial_ids[study_id]),\n", new="            number=len(self._trials),\n"),
    dict(id="c01-inmem-no-complete-timestamp-for-fail", prop="C01", file=IM, expect="R01",
         old="            if state.is_finished():\n                trial.datetime_complete = datetime.now()\n                self._set_trial(trial_id, trial)",
         new="            if state.is_finished():\n                if state != TrialState.FAIL:\n                    trial.datetime_complete = datetime.now()\n                self._set_trial(trial_id, trial)"),
    dict(id="c01-rdb-start-ts-always", prop="C01", file=RDB, expect="R01.10",
         old="                if state == TrialState.RUNNING:\n                    trial.datetime_start = datetime.now()\n", new="                trial.datetime_start = datetime.now()\n"),
    dict(id="c01-asdict-keeps-step", prop="C01", file=DI, expect="R01.11",
         old="        d = copy.deepcopy(self.__dict__)\n        d.pop(\"log\")\n        d.pop(\"step\")\n        return d\n\n\n@deprecated_class(\"3.0.0\", \"6.0.0\", text=_float_distribution_deprecated_msg)\nclass LogUniformDistribution",
         new="        d = copy.deepcopy(self.__dict__)\n        d.pop(\"log\")\n        return d\n\n\n@deprecated_class(\"3.0.0\", \"6.0.0\", text=_float_distribution_deprecated_msg)\nclass LogUniformDistribution"),
    dict(id="c01-distribution-class-unlisted", prop="C01", file=DI, expect="R01.11",
         old="    IntLogUniformDistribution,\n    IntUniformDistribution,\n    FloatDistribution,", new="    IntUniformDistribution,\n    FloatDistribution,"),
    dict(id="c01-f5-shape-reintroduced", prop="C01", file=JS, expect="R01.4",
         old="            for trial_id in self._study_id_to_trial_ids.pop(study_id):\n                del self._trial_id_to_study_id[trial_id]\n", new=""),
    dict(id="c01-f5-get_trial-ungated", prop="C01", file=JS, expect="R01.4",
         old="    def get_trial(self, trial_id: int) -> FrozenTrial:\n        if trial_id not in self._trial_id_to_study_id:", new="    def get_trial(self, trial_id: int) -> FrozenTrial:\n        if trial_id not in self._trials:"),
    # neutral
    dict(id="c01-neutral-guard-via-local", prop="C01", file=IM, expect=None,
         old="            trial = self._get_trial(trial_id)\n            self.check_trial_is_updatable(trial_id, trial.state)\n\n            trial = copy.copy(trial)\n            trial.system_attrs",
         new="            trial = self._get_trial(trial_id)\n            self.check_trial_is_updatable(trial_id, trial.state)\n            _logger.debug(\"updating\")\n\n            trial = copy.copy(trial)\n            trial.system_attrs"),
    dict(id="c01-neutral-servicer-tuple", prop="C01", file=SV, expect=None,
         old="        values = list(request.values) if request.values else None\n", new="        values = [float(v) for v in request.values] if len(request.values) > 0 else None\n"),
]

VARIANTS += [
    dict(id="c01-upsert-update-misses-type", prop="C01", file=RDB, expect="R01.12",
         old="        else:\n            trial_value.value = stored_value\n            trial_value.value_type = value_type\n", new="        else:\n            trial_value.value = stored_value\n"),
]

VARIANTS += [
    dict(id="c01-inmem-no-compat-check", prop="C01", file=IM, expect="R01.13",
         old="            if param_name in self._studies[study_id].param_distribution:\n                distributions.check_distribution_compatibility(\n                    self._studies[study_id].param_distribution[param_name], distribution\n                )\n", new=""),
    dict(id="c01-rdb-add-without-check", prop="C01", file=RDB, expect="R01.13",
         old="        trial_param.check_and_add(session, trial.study_id)\n", new="        session.add(trial_param)\n"),
]

VARIANTS += [
    dict(id="c01-journal-values-overwritten-with-none", prop="C01", file=JS, expect="R01.14",
         old="        if log[\"values\"] is not None:\n            trial.values = log[\"values\"]\n", new="        trial.values = log[\"values\"]\n"),
    dict(id="c01-inmem-values-overwritten-with-none", prop="C01", file=IM, expect="R01.14",
         old="            if values is not None:\n                trial.values = values\n", new="            trial.values = values\n"),
]

RDB1 = "optuna/storages/_rdb/storage.py"
VARIANTS += [
    # F14 shape: values written before the claim is tested
    dict(id="c01-f14-shape-reintroduced", prop="C01", file=RDB1, expect="R01.15",
         old="                if state == TrialState.RUNNING and trial.state != TrialState.WAITING:\n                    return False\n\n                if values is not None:\n                    for objective, v in enumerate(values):\n                        self._set_trial_value_without_commit(session, trial_id, objective, v)\n",
         new="                if values is not None:\n                    for objective, v in enumerate(values):\n                        self._set_trial_value_without_commit(session, trial_id, objective, v)\n\n                if state == TrialState.RUNNING and trial.state != TrialState.WAITING:\n                    return False\n"),
    dict(id="c01-rdb-start-time-kept-if-set", prop="C01", file=RDB1, expect="R01.10",
         old="                if state == TrialState.RUNNING:\n                    trial.datetime_start = datetime.now()\n",
         new="                if state == TrialState.RUNNING and trial.datetime_start is None:\n                    trial.datetime_start = datetime.now()\n"),
]

VARIANTS += [
    dict(id="c01-inmem-requeue-no-cursor-pullback", prop="C01", file=IM, expect="R01.16",
         old="                self._prev_waiting_trial_number[study_id] = min(\n                    self._prev_waiting_trial_number[study_id], number\n                )\n",
         new="                pass\n"),
    dict(id="c01-inmem-requeue-cursor-raised", prop="C01", file=IM, expect="R01.16",
         old="                self._prev_waiting_trial_number[study_id] = min(\n                    self._prev_waiting_trial_number[study_id], number\n                )\n",
         new="                self._prev_waiting_trial_number[study_id] = number + 1\n"),
    dict(id="c01-neutral-requeue-guarded-lowering", prop="C01", file=IM, expect=None,
         old="                self._prev_waiting_trial_number[study_id] = min(\n                    self._prev_waiting_trial_number[study_id], number\n                )\n",
         new="                if number < self._prev_waiting_trial_number[study_id]:\n                    self._prev_waiting_trial_number[study_id] = number\n"),
    dict(id="c01-rdb-param-bare-insert", prop="C01", file=RDB, expect="R01.12",
         old="        if trial_param is None:\n            trial_param = models.TrialParamModel(\n                trial_id=trial_id,\n                param_name=param_name,\n                param_value=param_value_internal,\n                distribution_json=distributions.distribution_to_json(distribution),\n            )\n            trial_param.check_and_add(session, trial.study_id)\n        else:",
         new="        if True:\n            trial_param = models.TrialParamModel(\n                trial_id=trial_id,\n                param_name=param_name,\n                param_value=param_value_internal,\n                distribution_json=distributions.distribution_to_json(distribution),\n            )\n            trial_param.check_and_add(session, trial.study_id)\n        else:"),
    dict(id="c01-rdb-param-update-forgets-distribution", prop="C01", file=RDB, expect="R01.12",
         old="            trial_param.param_value = param_value_internal\n            trial_param.distribution_json = distributions.distribution_to_json(distribution)\n",
         new="            trial_param.param_value = param_value_internal\n"),
    dict(id="c01-rdb-template-shallow-copy", prop="C01", file=RDB, expect="R01.5",
         old="                frozen = copy.deepcopy(template_trial)\n", new="                frozen = copy.copy(template_trial)\n"),
]

VARIANTS += [
    dict(id="c01-inmem-template-distributions-not-registered", prop="C01", file=IM, expect="R01.13",
         old="            for param_name, distribution in trial.distributions.items():\n                self._studies[study_id].param_distribution.setdefault(param_name, distribution)\n",
         new=""),
    dict(id="c01-journal-create-study-returns-counter", prop="C01", file=JS, expect="R01.18",
         old="                study_id = frozen_study._study_id\n", new="                study_id = self._replay_result._next_study_id - 1\n"),
    dict(id="c01-cached-get-all-trials-unsorted", prop="C01", file=CS, expect="R01.19",
         old="            trials = list(sorted(trials.values(), key=lambda t: t.number))\n", new="            trials = list(trials.values())\n"),
    dict(id="c01-journal-same-state-noop-widened", prop="C01", file="optuna/storages/journal/_storage.py", expect="R01.20",
         old="        if state == self._trials[trial_id].state and state == TrialState.RUNNING:\n",
         new="        if state == self._trials[trial_id].state:\n"),
    dict(id="c01-journal-waiting-request-ignored", prop="C01", file="optuna/storages/journal/_storage.py", expect="R01.20",
         old="        trial = copy.copy(self._trials[trial_id])\n        if state == TrialState.RUNNING:\n",
         new="        if state == TrialState.WAITING:\n            return\n        trial = copy.copy(self._trials[trial_id])\n        if state == TrialState.RUNNING:\n"),
]
