"""C02 self-validation variants."""
TELL = "optuna/study/_tell.py"
OP = "optuna/study/_optimize.py"

VARIANTS = [
    dict(id="c02-f1-isnan-on-raw", prop="C02", file=TELL, expect="R02.1",
         old="        if math.isnan(float_v):", new="        if math.isnan(v):"),
    dict(id="c02-f1-no-overflow", prop="C02", file=TELL, expect="R02.1",
         old="        except Exception:\n", new="        except (ValueError, TypeError):\n"),
    dict(id="c02-f30-narrow-except", prop="C02", file=TELL, expect="R02.1",
         old="        except Exception:\n", new="        except (ValueError, TypeError, OverflowError):\n"),
    dict(id="c02-f1-full-revert", prop="C02", file=TELL, expect="R02.1",
         old="            float_v = float(v)\n        except Exception:\n            # Whatever a user-defined ``__float__`` raises means the same as the built-in conversion\n            # errors: the value is not float-convertible and the trial has to fail.\n            return f\"The value {repr(v)} could not be cast to float\"\n\n        if math.isnan(float_v):",
         new="            float(v)\n        except (ValueError, TypeError):\n            return f\"The value {repr(v)} could not be cast to float\"\n\n        if math.isnan(v):"),
    dict(id="c02-no-finally", prop="C02", file=TELL, expect="R02.1",
         old="    try:\n        # Sampler defined trial post-processing.\n        study = pruners._filter_study(study, frozen_trial)\n        # The sampler gets its own list: the one below is what has been validated and is stored.\n        study.sampler.after_trial(\n            study, frozen_trial, state, None if values is None else list(values)\n        )\n    finally:\n        study._storage.set_trial_state_values(frozen_trial._trial_id, state, values)\n",
         new="    # Sampler defined trial post-processing.\n    study = pruners._filter_study(study, frozen_trial)\n    study.sampler.after_trial(study, frozen_trial, state, None if values is None else list(values))\n    study._storage.set_trial_state_values(frozen_trial._trial_id, state, values)\n"),
    dict(id="c02-narrow-except", prop="C02", file=OP, expect="R02.1",
         old="        except (Exception, KeyboardInterrupt) as e:\n            state = TrialState.FAIL", new="        except Exception as e:\n            state = TrialState.FAIL"),
    dict(id="c02-len-on-scalar-before-normalise", prop="C02", file=TELL, expect="R02.1",
         old="    # Validate the state and values arguments.\n    values: Sequence[float] | None\n",
         new="    if value_or_values is not None and len(value_or_values) == 0:\n        raise ValueError(\"empty\")\n    # Validate the state and values arguments.\n    values: Sequence[float] | None\n"),
    dict(id="c02-compare-raw-value", prop="C02", file=OP, expect="R02.1",
         old="    # `_tell_with_warning` may raise during trial post-processing.\n    try:\n        frozen_trial = _tell_with_warning(",
         new="    if value_or_values is not None and value_or_values < 0:\n        _logger.debug(\"negative\")\n    # `_tell_with_warning` may raise during trial post-processing.\n    try:\n        frozen_trial = _tell_with_warning("),
    dict(id="c02-early-return-on-none", prop="C02", file=OP, expect="R02.1",
         old="    # `_tell_with_warning` may raise during trial post-processing.\n    try:\n        frozen_trial = _tell_with_warning(",
         new="    if value_or_values is None and func_err is None:\n        return study._storage.get_trial(trial._trial_id)\n    # `_tell_with_warning` may raise during trial post-processing.\n    try:\n        frozen_trial = _tell_with_warning("),
    dict(id="c02-cast-before-check", prop="C02", file=TELL, expect="R02.1",
         old="    _check_state_and_values(state, values)\n\n    warning_message = None\n",
         new="    _check_state_and_values(state, values)\n    if values is not None:\n        values = [float(v) for v in values]\n\n    warning_message = None\n"),
    dict(id="c02-sanitiser-skips-first", prop="C02", file=TELL, expect="R02.1",
         old="    for v in values:\n        # TODO(Imamura)", new="    for v in values[1:]:\n        # TODO(Imamura)"),
    dict(id="c02-sanitiser-no-nan-check", prop="C02", file=TELL, expect="R02.1",
         old="        if math.isnan(float_v):\n            return f\"The value {v} is not acceptable\"\n\n", new=""),
    dict(id="c02-sanitiser-no-len-check", prop="C02", file=TELL, expect="R02.1",
         old="    if len(study.directions) != len(values):\n        return (\n            f\"The number of the values {len(values)} did not match the number of the objectives \"\n            f\"{len(study.directions)}\"\n        )\n\n", new=""),
    dict(id="c02-sanitiser-continue-on-error", prop="C02", file=TELL, expect="R02.1",
         old="            return f\"The value {repr(v)} could not be cast to float\"\n",
         new="            continue\n"),
    dict(id="c02-complete-unconditionally", prop="C02", file=TELL, expect="R02",
         old="        if values_conversion_failure_message is None:\n            state = TrialState.COMPLETE\n        else:\n            state = TrialState.FAIL\n            values = None\n",
         new="        state = TrialState.COMPLETE\n        if values_conversion_failure_message is not None:\n            pass\n"),
    dict(id="c02-fail-keeps-values", prop="C02", file=TELL, expect="R02",
         old="            state = TrialState.FAIL\n            values = None\n            if not suppress_warning:", new="            state = TrialState.FAIL\n            if not suppress_warning:"),
    dict(id="c02-explicit-complete-unchecked", prop="C02", file=TELL, expect="R02",
         old="        values_conversion_failure_message = _check_values_are_feasible(study, values)\n        if values_conversion_failure_message is not None:\n            raise ValueError(values_conversion_failure_message)\n",
         new="        values_conversion_failure_message = None\n"),
    dict(id="c02-store-running-state", prop="C02", file=TELL, expect="R02.2",
         old="def _check_state_and_values(\n    state: TrialState | None, values: float | Sequence[float] | None\n) -> None:\n    if state == TrialState.COMPLETE:",
         new="def _check_state_and_values(\n    state: TrialState | None, values: float | Sequence[float] | None\n) -> None:\n    if state == TrialState.RUNNING:\n        return\n    if state == TrialState.COMPLETE:"),
    dict(id="c02-tell-finished-overwrite", prop="C02", file=TELL, expect="R02.3",
         old="    elif frozen_trial.state != TrialState.RUNNING:\n        raise ValueError(f\"Cannot tell a {frozen_trial.state.name} trial.\")\n", new=""),
    dict(id="c02-reraise-caught-too", prop="C02", file=OP, expect="R02.4",
         old="        and func_err is not None\n        and not isinstance(func_err, catch)\n    ):", new="        and func_err is not None\n    ):"),
    dict(id="c02-callbacks-in-finally", prop="C02", file=OP, expect="R02.5",
         old="            if gc_after_trial:\n                gc.collect()\n\n        if callbacks is not None:\n            for callback in callbacks:\n                callback(study, frozen_trial)\n",
         new="            if gc_after_trial:\n                gc.collect()\n            if callbacks is not None:\n                for callback in callbacks:\n                    callback(study, study.trials[-1])\n"),
    dict(id="c02-bound-off-by-one", prop="C02", file=OP, expect="R02.5",
         old="            if i_trial >= n_trials:\n                break\n            i_trial += 1\n", new="            if i_trial > n_trials:\n                break\n            i_trial += 1\n"),
    dict(id="c02-increment-after-run", prop="C02", file=OP, expect="R02.5",
         old="            if i_trial >= n_trials:\n                break\n            i_trial += 1\n", new="            if i_trial >= n_trials:\n                break\n").__class__(
         id="c02-double-increment", prop="C02", file=OP, expect="R02.5",
         old="        if callbacks is not None:\n            for callback in callbacks:\n                callback(study, frozen_trial)\n",
         new="        if callbacks is not None:\n            for callback in callbacks:\n                callback(study, frozen_trial)\n            i_trial += 1\n"),
    dict(id="c02-njobs-two-per-submit", prop="C02", file=OP, expect="R02.5",
         old="                            func,\n                            1,\n                            timeout,", new="                            func,\n                            2,\n                            timeout,"),
    # neutral
    dict(id="c02-neutral-message-text", prop="C02", file=TELL, expect=None,
         old="            return f\"The value {repr(v)} could not be cast to float\"", new="            return f\"The value {v!r} is not float-castable\""),
    dict(id="c02-neutral-extra-local", prop="C02", file=TELL, expect=None,
         old="        if math.isnan(float_v):", new="        is_nan = math.isnan(float_v)\n        if is_nan:"),
    dict(id="c02-neutral-catch-arith", prop="C02", file=TELL, expect=None,
         old="        except Exception:\n", new="        except (Exception,):\n"),
]

VARIANTS += [
    dict(id="c02-tell-drops-skip", prop="C02", file="optuna/study/study.py", expect="R02.5",
         old="            state=state,\n            skip_if_finished=skip_if_finished,\n        )", new="            state=state,\n        )"),
]

OPT2 = "optuna/study/_optimize.py"
VARIANTS += [
    # F15 shape: the futures still pending after the submission loop are never asked for their result
    dict(id="c02-f15-shape-reintroduced", prop="C02", file=OPT2, expect="R02.5",
         old="                # Raise if exception occurred in executing the remaining futures.\n                completed, futures = wait(futures)\n                for f in completed:\n                    f.result()\n",
         new=""),
    dict(id="c02-callbacks-skipped-after-stop", prop="C02", file=OPT2, expect="R02.5",
         old="        if callbacks is not None:\n",
         new="        if callbacks is not None and not study._stop_flag:\n"),
]

ST2 = "optuna/study/study.py"
VARIANTS += [
    # F16 shape: ask() does not fail the trial when the Trial set-up raises
    dict(id="c02-f16-shape-reintroduced", prop="C02", file=ST2, expect="R02.6",
         old="            self._storage.set_trial_state_values(trial_id, state=TrialState.FAIL)\n            raise\n",
         new="            raise\n"),
    dict(id="c02-ask-fails-only-on-exception-subclass", prop="C02", file=ST2, expect="R02.6",
         old="        except (Exception, KeyboardInterrupt):\n            # The trial already exists in the storage",
         new="        except ValueError:\n            # The trial already exists in the storage"),
]

VARIANTS += [
    dict(id="c02-callbacks-not-materialised", prop="C02", file="optuna/study/_optimize.py", expect="R02.5",
         old="        callbacks = list(callbacks)\n", new="        callbacks = iter(callbacks)\n"),
    dict(id="c02-neutral-callbacks-tuple", prop="C02", file="optuna/study/_optimize.py", expect=None,
         old="        callbacks = list(callbacks)\n", new="        callbacks = tuple(callbacks)\n"),
]

VARIANTS += [
    dict(id="c02-after-trial-shares-values-list", prop="C02", file="optuna/study/_tell.py", expect="R02.3",
         old="        study.sampler.after_trial(\n            study, frozen_trial, state, None if values is None else list(values)\n        )\n",
         new="        study.sampler.after_trial(study, frozen_trial, state, values)\n"),
    dict(id="c02-pool-shutdown-without-wait", prop="C02", file="optuna/study/_optimize.py", expect="R02.5",
         old="                        for f in completed:\n                            f.result()\n",
         new="                        for f in completed:\n                            f.result()\n                        executor.shutdown(wait=False)\n"),
]
