"""C03 self-validation variants (text edits, applied in memory)."""
IM = "optuna/storages/_in_memory.py"
JS = "optuna/storages/journal/_storage.py"
CS = "optuna/storages/_cached_storage.py"
GC = "optuna/storages/_grpc/client.py"
RDB = "optuna/storages/_rdb/storage.py"
MODELS = "optuna/storages/_rdb/models.py"

VARIANTS = [
    dict(id="c03-inmem-unlock-get_trial", prop="C03", file=IM, expect="R03.1",
         old="        with self._lock:\n            return self._get_trial(trial_id)\n",
         new="        return self._get_trial(trial_id)\n"),
    dict(id="c03-inmem-unlock-set_user_attr", prop="C03", file=IM, expect="R03.1",
         old="        with self._lock:\n            self._check_study_id(study_id)\n\n            study = self._studies[study_id]\n            study.user_attrs = {**study.user_attrs, key: value}\n",
         new="        if True:\n            self._check_study_id(study_id)\n\n            study = self._studies[study_id]\n            study.user_attrs = {**study.user_attrs, key: value}\n"),
    dict(id="c03-inmem-number-outside-lock", prop="C03", file=IM, expect="R03.1",
         old="        with self._lock:\n            self._check_study_id(study_id)\n\n            if template_trial is None:",
         new="        n_before = len(self._studies[study_id].trials)\n        with self._lock:\n            self._check_study_id(study_id)\n\n            if template_trial is None:"),
    dict(id="c03-journal-sync-outside", prop="C03", file=JS, expect="R03.2",
         old="        with self._thread_lock:\n            self._write_log(JournalOperation.DELETE_STUDY, {\"study_id\": study_id})\n            self._sync_with_backend()\n",
         new="        with self._thread_lock:\n            self._write_log(JournalOperation.DELETE_STUDY, {\"study_id\": study_id})\n        self._sync_with_backend()\n"),
    dict(id="c03-journal-split-regions", prop="C03", file=JS, expect="R03.2",
         old="            self._write_log(JournalOperation.SET_TRIAL_STATE_VALUES, log)\n            self._sync_with_backend()\n\n            if state",
         new="            self._write_log(JournalOperation.SET_TRIAL_STATE_VALUES, log)\n            self._sync_with_backend()\n\n        with self._thread_lock:\n            if state"),
    dict(id="c03-journal-no-sync", prop="C03", file=JS, expect="R03.2",
         old="            self._write_log(JournalOperation.SET_TRIAL_PARAM, log)\n            self._sync_with_backend()\n",
         new="            self._write_log(JournalOperation.SET_TRIAL_PARAM, log)\n"),
    dict(id="c03-journal-reader-unlocked", prop="C03", file=JS, expect="R03.2",
         old="        with self._thread_lock:\n            self._sync_with_backend()\n            return self._replay_result.get_trial(trial_id)\n",
         new="        self._sync_with_backend()\n        return self._replay_result.get_trial(trial_id)\n"),
    dict(id="c03-cached-unlock-get_trial", prop="C03", file=CS, expect="R03.3",
         old="        with self._lock:\n            trial = self._get_cached_trial(trial_id)\n            if trial is not None:\n                return trial\n",
         new="        trial = self._get_cached_trial(trial_id)\n        if trial is not None:\n            return trial\n"),
    dict(id="c03-cached-update-outside", prop="C03", file=CS, expect="R03.3",
         old="            self._add_trials_to_cache(study_id, [frozen_trial])\n",
         new="            pass\n        self._add_trials_to_cache(study_id, [frozen_trial])\n        with self._lock:\n"),
    dict(id="c03-grpc-cache-unlock", prop="C03", file=GC, expect="R03.3",
         old="        with self.lock:\n            self.studies.pop(study_id, None)\n",
         new="        self.studies.pop(study_id, None)\n"),
    dict(id="c03-rdb-no-for-update-state", prop="C03", file=RDB, expect="R03.4",
         old="trial = models.TrialModel.find_or_raise_by_id(trial_id, session, for_update=True)",
         new="trial = models.TrialModel.find_or_raise_by_id(trial_id, session)"),
    dict(id="c03-rdb-no-for-update-study", prop="C03", file=RDB, expect="R03.4",
         old="models.StudyModel.find_or_raise_by_id(study_id, session, for_update=True)",
         new="models.StudyModel.find_or_raise_by_id(study_id, session)"),
    dict(id="c03-rdb-heartbeat-no-refetch", prop="C03", file=RDB, expect="R03.4",
         old="heartbeat = models.TrialHeartbeatModel.where_trial_id(trial_id, session, True)",
         new="heartbeat = models.TrialHeartbeatModel.where_trial_id(trial_id, session, False)"),
    dict(id="c03-rdb-model-ignores-for-update", prop="C03", file=MODELS, expect="R03.4",
         old="        # \"FOR UPDATE\" clause is used for row-level locking.\n        # Please note that SQLite3 doesn't support this clause.\n        if for_update:\n            query = query.with_for_update()\n",
         new="        if for_update:\n            pass\n"),
    dict(id="c03-rdb-session-outside", prop="C03", file=RDB, expect="R03.4",
         old="            study = models.StudyModel.find_or_raise_by_id(study_id, session)\n            study_name = study.study_name\n\n        return study_name",
         new="            pass\n        study = models.StudyModel.find_or_raise_by_id(study_id, session)\n        study_name = study.study_name\n\n        return study_name"),
    dict(id="c03-cached-deadlock", prop="C03", file=CS, expect="R03.5",
         old="            study = self._studies[study_id]\n            self._add_trials_to_cache(study_id, [frozen_trial])\n",
         new="            study = self._studies[study_id]\n            self.get_study_directions(study_id)\n            self._add_trials_to_cache(study_id, [frozen_trial])\n"),
    # neutral
    dict(id="c03-neutral-rename-local", prop="C03", file=IM, expect=None, count=2,
         old="study_uuid", new="fresh_uuid"),
    dict(id="c03-neutral-helper-under-lock", prop="C03", file=IM, expect=None,
         old="        with self._lock:\n            return self._get_trial(trial_id)\n",
         new="        with self._lock:\n            return self._peek(trial_id)\n\n    def _peek(self, trial_id: int) -> FrozenTrial:\n        return self._get_trial(trial_id)\n"),
    dict(id="c03-neutral-journal-extra-read", prop="C03", file=JS, expect=None,
         old="        with self._thread_lock:\n            self._sync_with_backend()\n            return self._replay_result.get_trial(trial_id)\n",
         new="        with self._thread_lock:\n            self._sync_with_backend()\n            result = self._replay_result\n            return result.get_trial(trial_id)\n"),
]

VARIANTS += [
    dict(id="c03-drop-unique-attr", prop="C03", file=MODELS, expect="R03.6",
         old="    __tablename__ = \"trial_user_attributes\"\n    __table_args__: Any = (UniqueConstraint(\"trial_id\", \"key\"),)\n", new="    __tablename__ = \"trial_user_attributes\"\n"),
    dict(id="c03-study-name-not-unique", prop="C03", file=MODELS, expect="R03.6",
         old="        String(MAX_INDEXED_STRING_LENGTH), index=True, unique=True, nullable=False", new="        String(MAX_INDEXED_STRING_LENGTH), index=True, nullable=False"),
]

VARIANTS += [
    dict(id="c03-inmem-copy-after-lock", prop="C03", file=IM, expect="R03.1",
         old="            if deepcopy:\n                trials = copy.deepcopy(trials)\n            else:\n                # This copy is required for the replacing trick in `set_trial_xxx`.\n                trials = copy.copy(trials)\n\n        return trials\n",
         new="        if deepcopy:\n            trials = copy.deepcopy(trials)\n        else:\n            # This copy is required for the replacing trick in `set_trial_xxx`.\n            trials = copy.copy(trials)\n\n        return trials\n"),
]

VARIANTS += [
    dict(id="c03-inmem-read-then-swap", prop="C03", file=IM, expect="R03.7",
         old="    def set_trial_system_attr(self, trial_id: int, key: str, value: JSONSerializable) -> None:\n        with self._lock:\n            trial = self._get_trial(trial_id)\n            self.check_trial_is_updatable(trial_id, trial.state)\n\n            trial = copy.copy(trial)\n            trial.system_attrs = copy.copy(trial.system_attrs)\n            trial.system_attrs[key] = value\n            self._set_trial(trial_id, trial)\n",
         new="    def set_trial_system_attr(self, trial_id: int, key: str, value: JSONSerializable) -> None:\n        trial = self.get_trial(trial_id)\n        self.check_trial_is_updatable(trial_id, trial.state)\n        trial = copy.copy(trial)\n        trial.system_attrs = copy.copy(trial.system_attrs)\n        trial.system_attrs[key] = value\n        with self._lock:\n            self._set_trial(trial_id, trial)\n"),
    dict(id="c03-journal-two-regions", prop="C03", file=JS, expect="R03",
         old="        with self._thread_lock:\n            self._write_log(JournalOperation.SET_TRIAL_USER_ATTR, log)\n            self._sync_with_backend()\n",
         new="        with self._thread_lock:\n            self._write_log(JournalOperation.SET_TRIAL_USER_ATTR, log)\n        with self._thread_lock:\n            self._sync_with_backend()\n"),
]

VARIANTS += [
    dict(id="c03-journal-precheck-before-append", prop="C03", file=JS, expect="R03.8",
         old="        with self._thread_lock:\n            self._write_log(JournalOperation.DELETE_STUDY, {\"study_id\": study_id})\n            self._sync_with_backend()\n",
         new="        with self._thread_lock:\n            self._sync_with_backend()\n            self._replay_result.get_study(study_id)\n            self._write_log(JournalOperation.DELETE_STUDY, {\"study_id\": study_id})\n            self._sync_with_backend()\n"),
]

VARIANTS += [
    dict(id="c03-journal-create-returns-newest-of-study", prop="C03", file=JS, expect="R03.9",
         old="            trial_id = self._replay_result._last_created_trial_id_by_this_process\n",
         new="            trial_id = self._replay_result._study_id_to_trial_ids[study_id][-1]\n"),
]

VARIANTS += [
    # round 4: reverts of F17 and structural twins of the new clauses
    dict(id="c03-cached-create-fetch-outside-lock", prop="C03", file=CS, expect="R03.10",
         old="            frozen_trial = self._backend._create_new_trial(study_id, template_trial)\n            trial_id = frozen_trial._trial_id\n            if study_id not in self._studies:\n                self._studies[study_id] = _StudyInfo()\n            study = self._studies[study_id]\n            self._add_trials_to_cache(study_id, [frozen_trial])\n",
         new="            frozen_trial = self._backend._create_new_trial(study_id, template_trial)\n            trial_id = frozen_trial._trial_id\n        with self._lock:\n            if study_id not in self._studies:\n                self._studies[study_id] = _StudyInfo()\n            study = self._studies[study_id]\n            self._add_trials_to_cache(study_id, [frozen_trial])\n"),
    dict(id="c03-rdb-flush-commit-mid-call", prop="C03", file=RDB, expect="R03.4",
         old="            trial_param.check_and_add(session, trial.study_id)\n",
         new="            trial_param.check_and_add(session, trial.study_id)\n            session.commit()\n"),
    dict(id="c03-rdb-state-test-on-plain-read", prop="C03", file=RDB, expect="R03.4",
         old="                trial = models.TrialModel.find_or_raise_by_id(trial_id, session, for_update=True)\n                self.check_trial_is_updatable(trial_id, trial.state)\n\n                if state == TrialState.RUNNING and trial.state != TrialState.WAITING:",
         new="                trial = models.TrialModel.find_or_raise_by_id(trial_id, session, for_update=True)\n                self.check_trial_is_updatable(trial_id, trial.state)\n\n                if state == TrialState.RUNNING and models.TrialModel.find_or_raise_by_id(trial_id, session).state != TrialState.WAITING:"),
]

VARIANTS += [
    dict(id="c03-cached-create-study-outside-lock", prop="C03", file=CS, expect="R03.10",
         old="        with self._lock:\n            # The cache entry of the new study is registered in the critical section of the\n",
         new="        study_id = self._backend.create_new_study(directions=directions, study_name=study_name)\n        with self._lock:\n            study_id = study_id\n            # The cache entry of the new study is registered in the critical section of the\n"),
    dict(id="c03-rdb-number-counted-before-insert", prop="C03", file=RDB, expect="R03.4",
         old="        session.add(trial)\n\n        # Flush the session cache to reflect the above addition operation to\n",
         new="        n_before = trial.count_past_trials(session)\n        session.add(trial)\n\n        # Flush the session cache to reflect the above addition operation to\n"),
    dict(id="c03-partial-line-offset-kept", prop="C03", file="optuna/storages/journal/_file.py", expect="R03.11",
         old="                    del self._log_number_offset[log_number + 1]\n", new="", count=2),
]
