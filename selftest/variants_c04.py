"""C04 self-validation variants."""
IM = "optuna/storages/_in_memory.py"
JS = "optuna/storages/journal/_storage.py"
RDB = "optuna/storages/_rdb/storage.py"
ST = "optuna/study/study.py"
TR = "optuna/trial/_trial.py"

VARIANTS = [
    dict(id="c04-inmem-no-cas", prop="C04", file=IM, expect="R04.1",
         old="            if state == TrialState.RUNNING and trial.state != TrialState.WAITING:\n                return False\n\n            trial.state = state", new="            trial.state = state"),
    dict(id="c04-inmem-cas-weakened", prop="C04", file=IM, expect="R04.1",
         old="            if state == TrialState.RUNNING and trial.state != TrialState.WAITING:\n                return False\n\n            trial.state = state",
         new="            if state == TrialState.RUNNING and trial.state == TrialState.COMPLETE:\n                return False\n\n            trial.state = state"),
    dict(id="c04-inmem-loser-returns-true", prop="C04", file=IM, expect="R04.1",
         old="            if state == TrialState.RUNNING and trial.state != TrialState.WAITING:\n                return False\n\n            trial.state = state",
         new="            if state == TrialState.RUNNING and trial.state != TrialState.WAITING:\n                return True\n\n            trial.state = state"),
    dict(id="c04-rdb-no-cas", prop="C04", file=RDB, expect="R04.1",
         old="                if state == TrialState.RUNNING and trial.state != TrialState.WAITING:\n                    return False\n\n                if values is not None:", new="                if values is not None:"),
    dict(id="c04-rdb-no-finished-guard", prop="C04", file=RDB, expect="R04.1",
         old="                trial = models.TrialModel.find_or_raise_by_id(trial_id, session, for_update=True)\n                self.check_trial_is_updatable(trial_id, trial.state)\n",
         new="                trial = models.TrialModel.find_or_raise_by_id(trial_id, session, for_update=True)\n"),
    dict(id="c04-journal-no-running-running-guard", prop="C04", file=JS, expect="R04",
         old="        if state == self._trials[trial_id].state and state == TrialState.RUNNING:\n            # The state is kept the same, i.e., this request did not acquire the trial.\n            if self._is_issued_by_this_worker(log):\n                self._worker_id_to_owned_trial_id.pop(self.worker_id, None)\n            return\n\n", new=""),
    dict(id="c04-journal-guard-too-weak", prop="C04", file=JS, expect="R04",
         old="        if state == self._trials[trial_id].state and state == TrialState.RUNNING:\n            # The state",
         new="        if state == self._trials[trial_id].state and state == TrialState.WAITING:\n            # The state"),
    dict(id="c04-journal-helper-ignores-finished", prop="C04", file=JS, expect="R04.1",
         old="        elif self._trials[trial_id].state.is_finished():", new="        elif self._trials[trial_id].state == TrialState.COMPLETE:"),
    dict(id="c04-pop-ignores-result", prop="C04", file=ST, expect="R04.2",
         old="            try:\n                if not self._storage.set_trial_state_values(\n                    trial._trial_id, state=TrialState.RUNNING\n                ):\n                    continue\n",
         new="            try:\n                self._storage.set_trial_state_values(trial._trial_id, state=TrialState.RUNNING)\n"),
    dict(id="c04-pop-inverted", prop="C04", file=ST, expect="R04.2",
         old="            try:\n                if not self._storage.set_trial_state_values(\n                    trial._trial_id, state=TrialState.RUNNING\n                ):\n                    continue\n",
         new="            try:\n                if self._storage.set_trial_state_values(\n                    trial._trial_id, state=TrialState.RUNNING\n                ):\n                    continue\n"),
    dict(id="c04-pop-lists-running-too", prop="C04", file=ST, expect="R04.2",
         old="            self._study_id, deepcopy=False, states=(TrialState.WAITING,)\n        ):\n            try:",
         new="            self._study_id, deepcopy=False, states=None\n        ):\n            try:"),
    dict(id="c04-requeue-on-failure", prop="C04", file="optuna/storages/_callbacks.py", expect="R04.3",
         old="        system_attrs[\"retry_history\"].append(trial.number)\n",
         new="        system_attrs[\"retry_history\"].append(trial.number)\n        if self._max_retry == 0:\n            study._storage.set_trial_state_values(trial._trial_id, state=optuna.trial.TrialState.WAITING)\n            return\n"),
    dict(id="c04-cursor-plus-one", prop="C04", file=IM, expect="R04.3",
         old="                            self._prev_waiting_trial_number[study_id] = trial.number\n",
         new="                            self._prev_waiting_trial_number[study_id] = trial.number + 1\n"),
    dict(id="c04-cursor-last-found", prop="C04", file=IM, expect="R04.3",
         old="                        if not trials:\n                            self._prev_waiting_trial_number[study_id] = trial.number\n",
         new="                        self._prev_waiting_trial_number[study_id] = trial.number\n"),
    dict(id="c04-cursor-any-trial", prop="C04", file=IM, expect="R04.3",
         old="                    if trial.state == TrialState.WAITING:\n                        if not trials:\n                            self._prev_waiting_trial_number[study_id] = trial.number\n                        trials.append(trial)\n",
         new="                    if not trials:\n                        self._prev_waiting_trial_number[study_id] = trial.number\n                    if trial.state == TrialState.WAITING:\n                        trials.append(trial)\n"),
    dict(id="c04-cursor-end-always", prop="C04", file=IM, expect="R04.3",
         old="                if not trials:\n                    self._prev_waiting_trial_number[study_id] = len(self._studies[study_id].trials)\n",
         new="                self._prev_waiting_trial_number[study_id] = len(self._studies[study_id].trials)\n"),
    dict(id="c04-ownership-any-worker", prop="C04", file=JS, expect="R04.4",
         old="            if self._is_issued_by_this_worker(log):\n                self._worker_id_to_owned_trial_id[self.worker_id] = trial_id\n        if state.is_finished():",
         new="            self._worker_id_to_owned_trial_id[self.worker_id] = trial_id\n        if state.is_finished():"),
    dict(id="c04-ownership-before-guard", prop="C04", file=JS, expect="R04.4",
         old="        state = TrialState(log[\"state\"])\n        if state == self._trials[trial_id].state and state == TrialState.RUNNING:\n",
         new="        state = TrialState(log[\"state\"])\n        if state == TrialState.RUNNING and self._is_issued_by_this_worker(log):\n            self._worker_id_to_owned_trial_id[self.worker_id] = trial_id\n        if state == self._trials[trial_id].state and state == TrialState.RUNNING:\n"),
    dict(id="c04-journal-always-true", prop="C04", file=JS, expect="R04.4",
         old="            if state == TrialState.RUNNING and trial_id != self._replay_result.owned_trial_id:\n                return False\n            else:\n                return True\n",
         new="            return True\n"),
    dict(id="c04-relative-before-fixed", prop="C04", file=TR, expect="R04.5",
         old="            if self._is_fixed_param(name, distribution):\n                param_value = self._fixed_params[name]\n            elif distribution.single():\n                param_value = distributions._get_single_value(distribution)\n            elif self._is_relative_param(name, distribution):\n                param_value = self.relative_params[name]\n",
         new="            if self._is_relative_param(name, distribution):\n                param_value = self.relative_params[name]\n            elif self._is_fixed_param(name, distribution):\n                param_value = self._fixed_params[name]\n            elif distribution.single():\n                param_value = distributions._get_single_value(distribution)\n"),
    dict(id="c04-fixed-out-of-range-dropped", prop="C04", file=TR, expect="R04.5",
         old="                \"for distribution {}.\".format(name, param_value, distribution)\n            )\n        return True\n",
         new="                \"for distribution {}.\".format(name, param_value, distribution)\n            )\n            return False\n        return True\n"),
    dict(id="c04-enqueue-copies-subset", prop="C04", file=ST, expect="R04.5",
         old="                system_attrs={\"fixed_params\": params},\n", new="                system_attrs={\"fixed_params\": {k: v for k, v in params.items() if v is not None}},\n"),
    dict(id="c04-enqueue-drops-user-attrs", prop="C04", file=ST, expect="R04.5",
         old="                system_attrs={\"fixed_params\": params},\n                user_attrs=user_attrs,\n", new="                system_attrs={\"fixed_params\": params},\n"),
    # neutral
    dict(id="c04-neutral-cas-rewritten", prop="C04", file=IM, expect=None,
         old="            if state == TrialState.RUNNING and trial.state != TrialState.WAITING:\n                return False\n",
         new="            if trial.state != TrialState.WAITING and state == TrialState.RUNNING:\n                return False\n"),
    dict(id="c04-neutral-cas-nested", prop="C04", file=IM, expect=None,
         old="            if state == TrialState.RUNNING and trial.state != TrialState.WAITING:\n                return False\n",
         new="            if state == TrialState.RUNNING:\n                if not (trial.state == TrialState.WAITING):\n                    return False\n"),
    dict(id="c04-neutral-pop-positive-form", prop="C04", file=ST, expect=None,
         old="            try:\n                if not self._storage.set_trial_state_values(\n                    trial._trial_id, state=TrialState.RUNNING\n                ):\n                    continue\n            except exceptions.UpdateFinishedTrialError:\n                # Another worker has claimed and already finished the trial.\n                continue\n\n            _logger.debug(\"Trial {} popped from the trial queue.\".format(trial.number))\n            return trial._trial_id\n",
         new="            try:\n                claimed = self._storage.set_trial_state_values(trial._trial_id, state=TrialState.RUNNING)\n            except exceptions.UpdateFinishedTrialError:\n                claimed = False\n            if claimed:\n                _logger.debug(\"Trial {} popped from the trial queue.\".format(trial.number))\n                return trial._trial_id\n"),
]

VARIANTS += [
    dict(id="c04-neutral-cursor-comprehension-form", prop="C04", file=IM, expect=None,
         old="                trials: list[FrozenTrial] = []\n                for trial in self._studies[study_id].trials[\n                    self._prev_waiting_trial_number[study_id] :\n                ]:\n                    if trial.state == TrialState.WAITING:\n                        if not trials:\n                            self._prev_waiting_trial_number[study_id] = trial.number\n                        trials.append(trial)\n                if not trials:\n                    self._prev_waiting_trial_number[study_id] = len(self._studies[study_id].trials)\n",
         new="                study_trials = self._studies[study_id].trials\n                start = self._prev_waiting_trial_number[study_id]\n                trials: list[FrozenTrial] = [\n                    t for t in study_trials[start:] if t.state == TrialState.WAITING\n                ]\n                self._prev_waiting_trial_number[study_id] = (\n                    trials[0].number if trials else len(study_trials)\n                )\n"),
    dict(id="c04-cursor-comprehension-trial-id", prop="C04", file=IM, expect="R04.3",
         old="                trials: list[FrozenTrial] = []\n                for trial in self._studies[study_id].trials[\n                    self._prev_waiting_trial_number[study_id] :\n                ]:\n                    if trial.state == TrialState.WAITING:\n                        if not trials:\n                            self._prev_waiting_trial_number[study_id] = trial.number\n                        trials.append(trial)\n                if not trials:\n                    self._prev_waiting_trial_number[study_id] = len(self._studies[study_id].trials)\n",
         new="                study_trials = self._studies[study_id].trials\n                start = self._prev_waiting_trial_number[study_id]\n                trials: list[FrozenTrial] = [\n                    t for t in study_trials[start:] if t.state == TrialState.WAITING\n                ]\n                self._prev_waiting_trial_number[study_id] = (\n                    trials[0]._trial_id if trials else len(study_trials)\n                )\n"),
]

VARIANTS += [
    dict(id="c04-f9-shape-reintroduced", prop="C04", file=JS, expect="R04.4",
         old="            if self._is_issued_by_this_worker(log):\n                self._worker_id_to_owned_trial_id.pop(self.worker_id, None)\n            return\n", new="            return\n"),
]

JS = "optuna/storages/journal/_storage.py"
VARIANTS += [
    # F11 shape: worker id without the process id (fork shares prefix and main-thread ident)
    dict(id="c04-f11-shape-reintroduced", prop="C04", file=JS, expect="R04.4",
         old='        return self._worker_id_prefix + str(os.getpid()) + "-" + str(threading.get_ident())\n',
         new='        return self._worker_id_prefix + str(threading.get_ident())\n'),
    dict(id="c04-worker-id-without-thread", prop="C04", file=JS, expect="R04.4",
         old='        return self._worker_id_prefix + str(os.getpid()) + "-" + str(threading.get_ident())\n',
         new='        return self._worker_id_prefix + str(os.getpid())\n'),
    dict(id="c04-setstate-keeps-prefix", prop="C04", file=JS, expect="R04.4",
         old='        self.__dict__.update(state)\n        self._worker_id_prefix = str(uuid.uuid4()) + "-"\n',
         new='        self.__dict__.update(state)\n        self._worker_id_prefix = state.get("_prefix", "w-")\n'),
    dict(id="c04-neutral-worker-id-fstring", prop="C04", file=JS, expect=None,
         old='        return self._worker_id_prefix + str(os.getpid()) + "-" + str(threading.get_ident())\n',
         new='        pid = os.getpid()\n        return f"{self._worker_id_prefix}{pid}-{threading.get_ident()}"\n'),
]

IM4 = "optuna/storages/_in_memory.py"
CB4 = "optuna/storages/_callbacks.py"
VARIANTS += [
    dict(id="c04-inmem-guard-before-lock", prop="C04", file=IM4, expect="R04.1",
         old="        with self._lock:\n            trial = copy.copy(self._get_trial(trial_id))\n            self.check_trial_is_updatable(trial_id, trial.state)\n\n            if state == TrialState.RUNNING and trial.state != TrialState.WAITING:\n                return False\n\n            trial.state = state\n",
         new="        trial = self.get_trial(trial_id)\n        self.check_trial_is_updatable(trial_id, trial.state)\n\n        if state == TrialState.RUNNING and trial.state != TrialState.WAITING:\n            return False\n\n        with self._lock:\n            trial = copy.copy(self._get_trial(trial_id))\n            trial.state = state\n"),
    dict(id="c04-retry-overwrites-fixed-params", prop="C04", file=CB4, expect="R04.6",
         old="        system_attrs[\"retry_history\"].append(trial.number)\n",
         new="        system_attrs[\"fixed_params\"] = dict(trial.params)\n        system_attrs[\"retry_history\"].append(trial.number)\n"),
    dict(id="c04-retry-drops-system-attrs", prop="C04", file=CB4, expect="R04.6",
         old="            \"retry_history\": [],\n            **trial.system_attrs,\n",
         new="            \"retry_history\": list(trial.system_attrs.get(\"retry_history\", [])),\n"),
    dict(id="c04-neutral-retry-history-local", prop="C04", file=CB4, expect=None,
         old="        system_attrs[\"retry_history\"].append(trial.number)\n        if self._max_retry is not None:\n            if self._max_retry < len(system_attrs[\"retry_history\"]):\n                return\n",
         new="        retry_history = system_attrs[\"retry_history\"]\n        retry_history.append(trial.number)\n        if self._max_retry is not None and self._max_retry < len(retry_history):\n            return\n"),
]

RDB4 = "optuna/storages/_rdb/storage.py"
VARIANTS += [
    dict(id="c04-rdb-claim-row-not-locked", prop="C04", file=RDB4, expect="R04.1",
         old="                trial = models.TrialModel.find_or_raise_by_id(trial_id, session, for_update=True)\n                self.check_trial_is_updatable(trial_id, trial.state)\n\n                if state == TrialState.RUNNING and trial.state != TrialState.WAITING:",
         new="                trial = models.TrialModel.find_or_raise_by_id(trial_id, session)\n                self.check_trial_is_updatable(trial_id, trial.state)\n\n                if state == TrialState.RUNNING and trial.state != TrialState.WAITING:"),
    # a statement-level compare-and-set makes the known finding go away (nothing else may fire)
    dict(id="c04-neutral-rdb-statement-level-cas", prop="C04", file=RDB4, expect=None,
         old="                        self._set_trial_value_without_commit(session, trial_id, objective, v)\n\n                trial.state = state\n",
         new="                        self._set_trial_value_without_commit(session, trial_id, objective, v)\n\n                n_rows = session.query(models.TrialModel).filter(models.TrialModel.trial_id == trial_id, models.TrialModel.state == trial.state).update({\"state\": state})\n                if n_rows == 0:\n                    return False\n                trial.state = state\n"),
]

VARIANTS += [
    dict(id="c04-inmem-template-shallow-copy", prop="C04", file=IM4, expect="R04.6",
         old="                trial = copy.deepcopy(template_trial)\n",
         new="                trial = copy.copy(template_trial)\n"),
]

VARIANTS += [
    dict(id="c04-pop-no-finished-catch", prop="C04", file=ST, expect="R04.2",
         old="            except exceptions.UpdateFinishedTrialError:\n                # Another worker has claimed and already finished the trial.\n                continue\n",
         new="            except exceptions.UpdateFinishedTrialError:\n                raise\n"),
    dict(id="c04-pop-catches-other-error", prop="C04", file=ST, expect="R04.2",
         old="            except exceptions.UpdateFinishedTrialError:\n                # Another worker has claimed",
         new="            except KeyError:\n                # Another worker has claimed"),
    dict(id="c04-fixed-value-through-internal-repr", prop="C04", file=TR, expect="R04.5",
         old="            self._cached_frozen_trial.distributions[name] = distribution\n            self._cached_frozen_trial.params[name] = param_value\n",
         new="            param_value = distribution.to_external_repr(param_value_in_internal_repr)\n            self._cached_frozen_trial.distributions[name] = distribution\n            self._cached_frozen_trial.params[name] = param_value\n"),
    dict(id="c04-rdb-claim-test-in-earlier-session", prop="C04", file=RDB, expect="R04.1",
         old="        try:\n            with _create_scoped_session(self.scoped_session) as session:\n                trial = models.TrialModel.find_or_raise_by_id(trial_id, session, for_update=True)\n                self.check_trial_is_updatable(trial_id, trial.state)\n\n                if state == TrialState.RUNNING and trial.state != TrialState.WAITING:\n                    return False\n",
         new="        if state == TrialState.RUNNING:\n            with _create_scoped_session(self.scoped_session) as session:\n                if models.TrialModel.find_or_raise_by_id(trial_id, session).state != TrialState.WAITING:\n                    return False\n        try:\n            with _create_scoped_session(self.scoped_session) as session:\n                trial = models.TrialModel.find_or_raise_by_id(trial_id, session, for_update=True)\n                self.check_trial_is_updatable(trial_id, trial.state)\n"),
    dict(id="c04-watermark-from-own-finished-trial", prop="C04", file="optuna/storages/_cached_storage.py", expect="R04.7",
         old="            if not frozen_trial.state.is_finished():\n                study.unfinished_trial_ids.add(trial_id)\n",
         new="            if frozen_trial.state.is_finished():\n                study.last_finished_trial_id = max(study.last_finished_trial_id, trial_id)\n            else:\n                study.unfinished_trial_ids.add(trial_id)\n"),
]
