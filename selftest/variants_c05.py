"""C05 self-validation variants."""
JF = "optuna/storages/journal/_file.py"
JS = "optuna/storages/journal/_storage.py"
CS = "optuna/storages/_cached_storage.py"
RDB = "optuna/storages/_rdb/storage.py"

VARIANTS = [
    dict(id="c05-no-flush", prop="C05", file=JF, expect="R05.1", old="                f.flush()\n", new=""),
    dict(id="c05-no-fsync", prop="C05", file=JF, expect="R05.1", old="                os.fsync(f.fileno())\n", new=""),
    dict(id="c05-fsync-before-flush", prop="C05", file=JF, expect="R05.1",
         old="                f.flush()\n                os.fsync(f.fileno())\n", new="                os.fsync(f.fileno())\n                f.flush()\n"),
    dict(id="c05-fsync-only-for-big-batches", prop="C05", file=JF, expect="R05.1",
         old="                os.fsync(f.fileno())\n", new="                if len(logs) > 1:\n                    os.fsync(f.fileno())\n"),
    dict(id="c05-write-per-record", prop="C05", file=JF, expect="R05.1",
         old="                f.write(what_to_write.encode(\"utf-8\"))\n",
         new="                for log in logs:\n                    f.write((json.dumps(log) + \"\\n\").encode(\"utf-8\"))\n"),
    dict(id="c05-no-trailing-newline", prop="C05", file=JF, expect="R05.1",
         old="                [json.dumps(log, separators=(\",\", \":\")) + \"\\n\" for log in logs]\n",
         new="                [json.dumps(log, separators=(\",\", \":\")) for log in logs]\n"),
    dict(id="c05-open-w", prop="C05", file=JF, expect="R05.2",
         old="            with open(self._file_path, \"ab\") as f:", new="            with open(self._file_path, \"r+b\") as f:"),
    dict(id="c05-init-truncates", prop="C05", file=JF, expect="R05.2",
         old="            open(self._file_path, \"ab\").close()", new="            open(self._file_path, \"wb\").close()"),
    dict(id="c05-journal-return-before-write", prop="C05", file=JS, expect="R05.3",
         old="        with self._thread_lock:\n            self._write_log(JournalOperation.SET_TRIAL_USER_ATTR, log)\n",
         new="        if trial_id in self._replay_result._trials and key in self._replay_result._trials[trial_id].user_attrs and self._replay_result._trials[trial_id].user_attrs[key] == value:\n            return\n        with self._thread_lock:\n            self._write_log(JournalOperation.SET_TRIAL_USER_ATTR, log)\n"),
    dict(id="c05-write_log-buffered", prop="C05", file=JS, expect="R05.3",
         old="        self._backend.append_logs([{\"op_code\": op_code, \"worker_id\": worker_id, **extra_fields}])\n",
         new="        rec = {\"op_code\": op_code, \"worker_id\": worker_id, **extra_fields}\n        if op_code != JournalOperation.SET_TRIAL_INTERMEDIATE_VALUE:\n            self._backend.append_logs([rec])\n"),
    dict(id="c05-cached-cache-before-backend", prop="C05", file=CS, expect="R05.3",
         old="            study_id = self._backend.create_new_study(directions=directions, study_name=study_name)\n            study = _StudyInfo()\n            study.name = study_name\n            study.directions = list(directions)\n            self._studies[study_id] = study\n",
         new="            study_id = len(self._studies)\n            study = _StudyInfo()\n            study.name = study_name\n            study.directions = list(directions)\n            self._studies[study_id] = study\n            study_id = self._backend.create_new_study(directions=directions, study_name=study_name)\n"),
    dict(id="c05-cached-skip-backend-attr", prop="C05", file=CS, expect="R05.3",
         old="        self._backend.set_trial_system_attr(trial_id, key=key, value=value)\n",
         new="        if not key.startswith(\"_tmp:\"):\n            self._backend.set_trial_system_attr(trial_id, key=key, value=value)\n"),
    dict(id="c05-no-rollback-generic", prop="C05", file=RDB, expect="R05.4",
         old="    except Exception:\n        session.rollback()\n        raise\n", new="    except Exception:\n        raise\n"),
    dict(id="c05-commit-in-finally", prop="C05", file=RDB, expect="R05.4",
         old="        yield session\n        session.commit()\n", new="        yield session\n"
         ).__class__(id="c05-commit-in-finally", prop="C05", file=RDB, expect="R05.4",
         old="    finally:\n        session.close()\n\n\nclass RDBStorage", new="    finally:\n        session.commit()\n        session.close()\n\n\nclass RDBStorage"),
    dict(id="c05-no-commit", prop="C05", file=RDB, expect="R05.4",
         old="        yield session\n        session.commit()\n", new="        yield session\n"),
    dict(id="c05-no-close", prop="C05", file=RDB, expect="R05.4",
         old="    finally:\n        session.close()\n\n\nclass RDBStorage", new="    finally:\n        pass\n\n\nclass RDBStorage"),
    dict(id="c05-ignore-integrity-skips-rollback", prop="C05", file=RDB, expect="R05.4",
         old="    except sqlalchemy_exc.IntegrityError as e:\n        session.rollback()\n        if ignore_integrity_error:",
         new="    except sqlalchemy_exc.IntegrityError as e:\n        if ignore_integrity_error:"),
    dict(id="c05-two-regions", prop="C05", file=RDB, expect="R05.4",
         old="                if values is not None:\n                    for objective, v in enumerate(values):\n                        self._set_trial_value_without_commit(session, trial_id, objective, v)\n\n                trial.state = state",
         new="                if values is not None:\n                    with _create_scoped_session(self.scoped_session) as session2:\n                        for objective, v in enumerate(values):\n                            self._set_trial_value_without_commit(session2, trial_id, objective, v)\n\n                trial.state = state"),
    dict(id="c05-release-not-in-finally", prop="C05", file=JF, expect="R05.5",
         old="    lock_obj.acquire()\n    try:\n        yield\n    finally:\n        lock_obj.release()\n",
         new="    lock_obj.acquire()\n    yield\n    lock_obj.release()\n"),
    # neutral
    dict(id="c05-neutral-extra-local", prop="C05", file=JF, expect=None,
         old="                f.write(what_to_write.encode(\"utf-8\"))\n",
         new="                payload = what_to_write.encode(\"utf-8\")\n                f.write(payload)\n"),
    dict(id="c05-neutral-cached-debug", prop="C05", file=CS, expect=None,
         old="        self._backend.set_trial_system_attr(trial_id, key=key, value=value)\n",
         new="        result = self._backend.set_trial_system_attr(trial_id, key=key, value=value)\n        return result\n"),
]

VARIANTS += [
    dict(id="c05-commit-in-else", prop="C05", file=RDB, expect="R05.4",
         old="    try:\n        yield session\n        session.commit()\n    except sqlalchemy_exc.IntegrityError as e:",
         new="    try:\n        yield session\n    except sqlalchemy_exc.IntegrityError as e:").__class__(
         id="c05-commit-after-try", prop="C05", edits=[
             dict(file=RDB, old="        yield session\n        session.commit()\n    except sqlalchemy_exc.IntegrityError as e:", new="        yield session\n    except sqlalchemy_exc.IntegrityError as e:"),
             dict(file=RDB, old="    except Exception:\n        session.rollback()\n        raise\n    finally:\n        session.close()\n", new="    except Exception:\n        session.rollback()\n        raise\n    else:\n        session.commit()\n    finally:\n        session.close()\n"),
         ], expect="R05.4"),
]

VARIANTS += [
    dict(id="c05-helper-commits-early", prop="C05", file=RDB, expect="R05.4",
         old="        session.flush()\n\n        if template_trial is not None:", new="        session.flush()\n        session.commit()\n\n        if template_trial is not None:"),
    dict(id="c05-release-owner-only", prop="C05", file=JF, expect="R05.5", count=2,
         old="        lock_rename_file = self._lock_file + str(uuid.uuid4()) + RENAME_FILE_SUFFIX\n        try:",
         new="        if not os.path.exists(self._lock_file):\n            raise RuntimeError(\"Error: did not possess lock\")\n        lock_rename_file = self._lock_file + str(uuid.uuid4()) + RENAME_FILE_SUFFIX\n        try:"),
]

VARIANTS += [
    # round 4
    dict(id="c05-takeover-loser-raises-symlink", prop="C05", file=JF, expect="R05.7", count=2,
         old="                            try:\n                                self.release()\n                                sleep_secs = 0.001\n                            except RuntimeError:\n                                continue\n",
         new="                            self.release()\n                            sleep_secs = 0.001\n"),
    dict(id="c05-takeover-catches-wrong-class", prop="C05", file=JF, expect="R05.7", count=2,
         old="                            except RuntimeError:\n                                continue\n",
         new="                            except KeyError:\n                                continue\n"),
    dict(id="c05-takeover-handler-reraises", prop="C05", file=JF, expect="R05.7", count=2,
         old="                            except RuntimeError:\n                                continue\n",
         new="                            except RuntimeError:\n                                raise\n"),
    dict(id="c05-neutral-takeover-catches-exception", prop="C05", file=JF, expect=None, count=2,
         old="                            except RuntimeError:\n                                continue\n",
         new="                            except (RuntimeError, OSError):\n                                continue\n"),
    dict(id="c05-rdb-region-opened-inside-writing-region", prop="C05", file=RDB, expect="R05.4",
         old="                session.add(models.StudyModel(study_name=study_name, directions=direction_models))\n",
         new="                session.add(models.StudyModel(study_name=study_name, directions=direction_models))\n                self.get_study_id_from_name(study_name)\n"),
    dict(id="c05-lock-release-after-failed-acquire", prop="C05", file=JF, expect="R05.5",
         old="    lock_obj.acquire()\n    try:\n        yield\n", new="    try:\n        lock_obj.acquire()\n        yield\n"),
]

VARIANTS += [
    dict(id="c05-repair-release-only-own-lock", prop="C05", expect=None, absent="release-only-after-own-create", file=JF, old="", new="",
         edits=[dict(file=JF, old="            try:\n                os.symlink(self._lock_target_file, self._lock_file)\n                return True\n",
                     new="            created = False\n            try:\n                os.symlink(self._lock_target_file, self._lock_file)\n                created = True\n                return True\n"),
                dict(file=JF, old="            try:\n                open_flags = os.O_CREAT | os.O_EXCL | os.O_WRONLY\n                os.close(os.open(self._lock_file, open_flags))\n                return True\n",
                     new="            created = False\n            try:\n                open_flags = os.O_CREAT | os.O_EXCL | os.O_WRONLY\n                os.close(os.open(self._lock_file, open_flags))\n                created = True\n                return True\n"),
                dict(file=JF, count=2, old="            except BaseException:\n                self.release()\n                raise\n",
                     new="            except BaseException:\n                if created:\n                    self.release()\n                raise\n")]),
    dict(id="c05-remembered-mtime-reset-in-loop", prop="C05", file=JF, expect="R05.10", count=2,
         old="                    if self.grace_period is not None:\n                        try:\n                            current_mtime = os.",
         new="                    mtime = None\n                    if self.grace_period is not None:\n                        try:\n                            current_mtime = os."),
]
