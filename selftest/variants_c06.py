"""C06 self-validation variants."""
JS = "optuna/storages/journal/_storage.py"

VARIANTS = [
    dict(id="c06-unguarded-raise", prop="C06", file=JS, expect="R06.2",
         old="        if study_name in [s.study_name for s in self._studies.values()]:\n            if self._is_issued_by_this_worker(log):\n                raise DuplicatedStudyError(",
         new="        if study_name in [s.study_name for s in self._studies.values()]:\n            if True:\n                raise DuplicatedStudyError("),
    dict(id="c06-helper-raises-for-everyone", prop="C06", file=JS, expect="R06",
         old="        if study_id in self._studies:\n            return True\n        if self._is_issued_by_this_worker(log):\n            raise KeyError(NOT_FOUND_MSG)\n        return False\n",
         new="        if study_id in self._studies:\n            return True\n        raise KeyError(NOT_FOUND_MSG)\n"),
    dict(id="c06-non-issuer-continues", prop="C06", file=JS, expect="R06.1",
         old="            if self._is_issued_by_this_worker(log):\n                raise DuplicatedStudyError(\n                    \"Another study with name '{}' already exists. \"\n                    \"Please specify a different name, or reuse the existing one \"\n                    \"by setting `load_if_exists` (for Python API) or \"\n                    \"`--skip-if-exists` flag (for CLI).\".format(study_name)\n                )\n            return\n",
         new="            if self._is_issued_by_this_worker(log):\n                raise DuplicatedStudyError(\n                    \"Another study with name '{}' already exists. \"\n                    \"Please specify a different name, or reuse the existing one \"\n                    \"by setting `load_if_exists` (for Python API) or \"\n                    \"`--skip-if-exists` flag (for CLI).\".format(study_name)\n                )\n"),
    dict(id="c06-mutate-before-guard", prop="C06", file=JS, expect="R06.3",
         old="        trial_id = log[\"trial_id\"]\n\n        if not self._trial_exists_and_updatable(trial_id, log):\n            return\n\n        state = TrialState(log[\"state\"])",
         new="        trial_id = log[\"trial_id\"]\n        if trial_id in self._trials and log[\"values\"] is not None:\n            self._trials[trial_id] = copy.copy(self._trials[trial_id])\n\n        if not self._trial_exists_and_updatable(trial_id, log):\n            return\n\n        state = TrialState(log[\"state\"])"),
    dict(id="c06-compat-error-after-partial-write", prop="C06", file=JS, expect="R06",
         old="        study_id = self._trial_id_to_study_id[trial_id]\n\n        for prev_trial_id in self._study_id_to_trial_ids[study_id]:",
         new="        study_id = self._trial_id_to_study_id[trial_id]\n        self._trials[trial_id] = copy.copy(self._trials[trial_id])\n\n        for prev_trial_id in self._study_id_to_trial_ids[study_id]:"),
    dict(id="c06-cursor-after-dispatch", prop="C06", file=JS, expect="R06.4",
         old="        for log in logs:\n            self.log_number_read += 1\n            op = log[\"op_code\"]\n",
         new="        for log in logs:\n            op = log[\"op_code\"]\n").__class__(
         id="c06-cursor-after-dispatch", prop="C06", edits=[
             dict(file=JS, old="        for log in logs:\n            self.log_number_read += 1\n            op = log[\"op_code\"]\n", new="        for log in logs:\n            op = log[\"op_code\"]\n"),
             dict(file=JS, old="            else:\n                assert False, \"Should not reach.\"\n\n    def get_study(self", new="            else:\n                assert False, \"Should not reach.\"\n            self.log_number_read += 1\n\n    def get_study(self"),
         ], expect="R06.4"),
    dict(id="c06-cursor-bulk-advance", prop="C06", edits=[
             dict(file=JS, old="        for log in logs:\n            self.log_number_read += 1\n            op = log[\"op_code\"]\n", new="        for log in logs:\n            op = log[\"op_code\"]\n"),
             dict(file=JS, old="            else:\n                assert False, \"Should not reach.\"\n\n    def get_study(self", new="            else:\n                assert False, \"Should not reach.\"\n        self.log_number_read += len(logs)\n\n    def get_study(self"),
         ], expect="R06.4"),
    dict(id="c06-worker-id-into-trial", prop="C06", file=JS, expect="R06.1",
         old="            user_attrs=log.get(\"user_attrs\", {}),\n            system_attrs=log.get(\"system_attrs\", {}),\n            value=log.get(\"value\", None),",
         new="            user_attrs=log.get(\"user_attrs\", {}),\n            system_attrs={**log.get(\"system_attrs\", {}), \"applied_by\": self.worker_id},\n            value=log.get(\"value\", None),"),
    dict(id="c06-now-into-trial", prop="C06", file=JS, expect="R06.1",
         old="        if state.is_finished():\n            trial.datetime_complete = datetime.datetime.fromisoformat(log[\"datetime_complete\"])\n",
         new="        if state.is_finished():\n            trial.datetime_complete = datetime.datetime.now()\n"),
    dict(id="c06-owner-only-write", prop="C06", file=JS, expect="R06.1",
         old="            if self._is_issued_by_this_worker(log):\n                self._worker_id_to_owned_trial_id[self.worker_id] = trial_id\n        if state.is_finished():",
         new="            if self._is_issued_by_this_worker(log):\n                self._worker_id_to_owned_trial_id[self.worker_id] = trial_id\n                self._trial_id_to_study_id[trial_id] = self._trial_id_to_study_id[trial_id]\n        if state.is_finished():"),
    dict(id="c06-owned-trial-steers-state", prop="C06", file=JS, expect="R06.1",
         old="        trial = copy.copy(self._trials[trial_id])\n        if state == TrialState.RUNNING:\n",
         new="        if state == TrialState.RUNNING and self.owned_trial_id == trial_id:\n            return\n        trial = copy.copy(self._trials[trial_id])\n        if state == TrialState.RUNNING:\n"),
    dict(id="c06-restore-keeps-owner-map", prop="C06", file=JS, expect="R06.5",
         old="        r._worker_id_to_owned_trial_id = {}\n", new=""),
    dict(id="c06-restore-keeps-prefix", prop="C06", file=JS, expect="R06.5",
         old="        r._worker_id_prefix = self._worker_id_prefix\n", new=""),
    dict(id="c06-restore-resets-cursor", prop="C06", file=JS, expect="R06.5",
         old="        r._last_created_trial_id_by_this_process = -1\n",
         new="        r._last_created_trial_id_by_this_process = -1\n        r.log_number_read = 0\n"),
    dict(id="c06-snapshot-of-studies-only", prop="C06", file=JS, expect="R06.5",
         old="                    self._backend.save_snapshot(pickle.dumps(self._replay_result))\n\n                return study_id",
         new="                    self._backend.save_snapshot(pickle.dumps(self._replay_result._studies))\n\n                return study_id"),
    dict(id="c06-getstate-drops-field", prop="C06", file=JS, expect="R06.5",
         old="    def apply_logs(self, logs: list[dict[str, Any]]) -> None:\n",
         new="    def __getstate__(self) -> dict[str, Any]:\n        state = self.__dict__.copy()\n        state.pop(\"_trial_id_to_study_id\", None)\n        return state\n\n    def apply_logs(self, logs: list[dict[str, Any]]) -> None:\n"),
    dict(id="c06-apply-own-record-directly", prop="C06", file=JS, expect="R06.6",
         old="        self._backend.append_logs([{\"op_code\": op_code, \"worker_id\": worker_id, **extra_fields}])\n",
         new="        rec = {\"op_code\": op_code, \"worker_id\": worker_id, **extra_fields}\n        self._backend.append_logs([rec])\n        self._replay_result.apply_logs([rec])\n"),
    dict(id="c06-sync-from-zero", prop="C06", file=JS, expect="R06.6",
         old="        logs = self._backend.read_logs(self._replay_result.log_number_read)\n",
         new="        logs = self._backend.read_logs(max(0, self._replay_result.log_number_read - 1))\n"),
    dict(id="c06-storage-pokes-replay-state", prop="C06", file=JS, expect="R06.6",
         old="            trial_id = self._replay_result._last_created_trial_id_by_this_process\n",
         new="            trial_id = self._replay_result._last_created_trial_id_by_this_process\n            self._replay_result._trial_id_to_study_id[trial_id] = study_id\n"),
    dict(id="c06-loop-local-leak", prop="C06", file=JS, expect="R06.4",
         old="        for log in logs:\n            self.log_number_read += 1\n            op = log[\"op_code\"]\n",
         new="        op = None\n        for log in logs:\n            self.log_number_read += 1\n            if op is None or \"op_code\" in log:\n                op = log[\"op_code\"]\n"),
    # neutral
    dict(id="c06-neutral-invert-helper-test", prop="C06", file=JS, expect=None,
         old="        if self._trial_exists_and_updatable(trial_id, log):\n            assert len(log[\"system_attr\"]) == 1\n            trial = copy.copy(self._trials[trial_id])\n            trial.system_attrs = {\n                **copy.copy(trial.system_attrs),\n                **log[\"system_attr\"],\n            }\n            self._trials[trial_id] = trial\n",
         new="        if not self._trial_exists_and_updatable(trial_id, log):\n            return\n        assert len(log[\"system_attr\"]) == 1\n        trial = copy.copy(self._trials[trial_id])\n        trial.system_attrs = {\n            **copy.copy(trial.system_attrs),\n            **log[\"system_attr\"],\n        }\n        self._trials[trial_id] = trial\n"),
    dict(id="c06-neutral-issuer-local", prop="C06", file=JS, expect=None,
         old="        if self._is_issued_by_this_worker(log):\n            self._last_created_trial_id_by_this_process = trial_id\n",
         new="        mine = self._is_issued_by_this_worker(log)\n        if mine:\n            self._last_created_trial_id_by_this_process = trial_id\n"),
]

VARIANTS += [
    dict(id="c06-alias-issuer-write", prop="C06", file=JS, expect="R06.1",
         old="        if self._is_issued_by_this_worker(log):\n            self._last_created_trial_id_by_this_process = trial_id\n",
         new="        mine = self._is_issued_by_this_worker(log)\n        if mine:\n            self._last_created_trial_id_by_this_process = trial_id\n            self._next_study_id += 0\n"),
]

VARIANTS += [
    dict(id="c06-duplicate-study-dropped-silently", prop="C06", file=JS, expect="R06.7",
         old="            if self._is_issued_by_this_worker(log):\n                raise DuplicatedStudyError(\n                    \"Another study with name '{}' already exists. \"\n                    \"Please specify a different name, or reuse the existing one \"\n                    \"by setting `load_if_exists` (for Python API) or \"\n                    \"`--skip-if-exists` flag (for CLI).\".format(study_name)\n                )\n            return\n",
         new="            return\n"),
]

RD = "optuna/storages/journal/_redis.py"
VARIANTS += [
    dict(id="c06-redis-undecodable-record-skipped", prop="C06", file=RD, expect="R06.8",
         old="                if log_number != max_log_number:\n                    raise err\n",
         new="                continue\n"),
    dict(id="c06-redis-starts-one-late", prop="C06", file=RD, expect="R06.8",
         old="        for log_number in range(log_number_from, max_log_number + 1):\n",
         new="        for log_number in range(log_number_from + 1, max_log_number + 1):\n"),
    dict(id="c06-neutral-redis-last-test-negated", prop="C06", file=RD, expect=None,
         old="                if log_number != max_log_number:\n                    raise err\n",
         new="                if not log_number == max_log_number:\n                    raise err\n"),
]

VARIANTS += [
    dict(id="c06-snapshot-pickled-outside-thread-lock", prop="C06", file=JS, expect="R06.5",
         old="            trial_id = self._replay_result._last_created_trial_id_by_this_process\n\n            # Dump snapshot here.\n            if (\n                isinstance(self._backend, BaseJournalSnapshot)\n                and trial_id != 0\n                and trial_id % SNAPSHOT_INTERVAL == 0\n            ):\n                self._backend.save_snapshot(pickle.dumps(self._replay_result))\n        return trial_id\n",
         new="            trial_id = self._replay_result._last_created_trial_id_by_this_process\n\n        # Dump snapshot here.\n        if (\n            isinstance(self._backend, BaseJournalSnapshot)\n            and trial_id != 0\n            and trial_id % SNAPSHOT_INTERVAL == 0\n        ):\n            self._backend.save_snapshot(pickle.dumps(self._replay_result))\n        return trial_id\n"),
    dict(id="c06-study-names-rebuilt-per-batch", prop="C06", file=JS, expect="R06.4",
         old="    def apply_logs(self, logs: list[dict[str, Any]]) -> None:\n",
         new="    def apply_logs(self, logs: list[dict[str, Any]]) -> None:\n        self._next_study_id = len(self._studies)\n"),
]

VARIANTS += [
    # round 4
    dict(id="c06-answer-before-sync", prop="C06", file=JS, expect="R06.9",
         old="    def get_study_name_from_id(self, study_id: int) -> str:\n        with self._thread_lock:\n            self._sync_with_backend()\n",
         new="    def get_study_name_from_id(self, study_id: int) -> str:\n        with self._thread_lock:\n            if study_id in self._replay_result._studies:\n                return self._replay_result._studies[study_id].study_name\n            self._sync_with_backend()\n"),
    dict(id="c06-worker-local-memo", prop="C06", file=JS, expect="R06.9",
         old="        with self._thread_lock:\n            self._write_log(JournalOperation.DELETE_STUDY, {\"study_id\": study_id})\n            self._sync_with_backend()\n",
         new="        with self._thread_lock:\n            self._write_log(JournalOperation.DELETE_STUDY, {\"study_id\": study_id})\n            self._sync_with_backend()\n            self._backend_seen = getattr(self, \"_backend_seen\", 0) + 1\n"),
]

VARIANTS += [
    dict(id="c06-setstate-keeps-replay-result", prop="C06", file=JS, expect="R06.11",
         old="        self._worker_id_prefix = str(uuid.uuid4()) + \"-\"\n        self._replay_result = JournalStorageReplayResult(self._worker_id_prefix)\n        self._thread_lock = threading.Lock()\n\n    def restore_replay_result",
         new="        self._worker_id_prefix = str(uuid.uuid4()) + \"-\"\n        self._thread_lock = threading.Lock()\n\n    def restore_replay_result"),
    dict(id="c06-redis-bare-snapshot-key", prop="C06", file="optuna/storages/journal/_redis.py", expect="R06.10",
         old="        snapshot_bytes = self._redis.get(f\"{self._prefix}:snapshot\")\n", new="        snapshot_bytes = self._redis.get(\":snapshot\")\n"),
]
