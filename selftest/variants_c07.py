"""C07 self-validation variants."""
JF = "optuna/storages/journal/_file.py"

VARIANTS = [
    dict(id="c07-write-outside-lock", prop="C07", file=JF, expect="R07.1",
         old="        with get_lock_file(self._lock):\n            # Every record is followed",
         new="        if True:\n            # Every record is followed"),
    dict(id="c07-write-other-lock", prop="C07", file=JF, expect="R07.1",
         old="        with get_lock_file(self._lock):\n            # Every record is followed",
         new="        with get_lock_file(JournalFileSymlinkLock(self._file_path + \".x\")):\n            # Every record is followed"),
    dict(id="c07-open-after-lock-released", prop="C07", file=JF, expect="R07.1",
         old="            with open(self._file_path, \"ab\") as f:\n                f.write(what_to_write.encode(\"utf-8\"))\n                f.flush()\n                os.fsync(f.fileno())\n",
         new="        with open(self._file_path, \"ab\") as f:\n            f.write(what_to_write.encode(\"utf-8\"))\n            f.flush()\n            os.fsync(f.fileno())\n"),
    dict(id="c07-no-excl", prop="C07", file=JF, expect="R07.2",
         old="open_flags = os.O_CREAT | os.O_EXCL | os.O_WRONLY", new="open_flags = os.O_CREAT | os.O_WRONLY"),
    dict(id="c07-return-true-on-eexist-timeout", prop="C07", file=JF, expect="R07.2", count=2,
         old="                            try:\n                                self.release()\n                                sleep_secs = 0.001\n                            except RuntimeError:\n                                continue\n",
         new="                            try:\n                                self.release()\n                                return True\n                            except RuntimeError:\n                                continue\n"),
    dict(id="c07-symlink-replaced-by-exists-check", prop="C07", file=JF, expect="R07.2",
         old="                os.symlink(self._lock_target_file, self._lock_file)\n                return True\n",
         new="                if not os.path.exists(self._lock_file):\n                    open(self._lock_file, \"ab\").close()\n                    return True\n                raise OSError(errno.EEXIST, \"locked\")\n"),
    dict(id="c07-release-not-in-finally", prop="C07", file=JF, expect="R07.3",
         old="    lock_obj.acquire()\n    try:\n        yield\n    finally:\n        lock_obj.release()\n",
         new="    lock_obj.acquire()\n    yield\n    lock_obj.release()\n"),
    dict(id="c07-release-unlink-only", prop="C07", file=JF, expect="R07.3", count=2,
         old="            os.rename(self._lock_file, lock_rename_file)\n            os.unlink(lock_rename_file)\n",
         new="            os.unlink(self._lock_file)\n"),
    dict(id="c07-release-fixed-name", prop="C07", file=JF, expect="R07.3", count=2,
         old="lock_rename_file = self._lock_file + str(uuid.uuid4()) + RENAME_FILE_SUFFIX",
         new="lock_rename_file = self._lock_file + RENAME_FILE_SUFFIX"),
    dict(id="c07-openlock-grace-flipped", prop="C07", file=JF, expect="R07.3",
         old="                        if time.monotonic() - last_update_monotonic_time > self.grace_period:\n                            warnings.warn(\n                                \"The existing lock file has not been released \"\n                                \"for an extended period. Forcibly releasing the lock file.\"\n                            )\n                            try:\n                                self.release()\n                                sleep_secs = 0.001\n                            except RuntimeError:\n                                continue\n\n                    time.sleep(sleep_secs)\n                    sleep_secs = min(sleep_secs * 2, 1)\n                    continue\n                raise err\n            except BaseException:\n                self.release()\n                raise\n\n    def release(self) -> None:\n        \"\"\"Release a lock by removing the created file.\"\"\"",
         new="                        if time.monotonic() - last_update_monotonic_time < self.grace_period:\n                            warnings.warn(\n                                \"The existing lock file has not been released \"\n                                \"for an extended period. Forcibly releasing the lock file.\"\n                            )\n                            try:\n                                self.release()\n                                sleep_secs = 0.001\n                            except RuntimeError:\n                                continue\n\n                    time.sleep(sleep_secs)\n                    sleep_secs = min(sleep_secs * 2, 1)\n                    continue\n                raise err\n            except BaseException:\n                self.release()\n                raise\n\n    def release(self) -> None:\n        \"\"\"Release a lock by removing the created file.\"\"\""),
    dict(id="c07-accept-unterminated", prop="C07", file=JF, expect="R07.4",
         old="                if not line.endswith(b\"\\n\"):\n                    last_decode_error = ValueError(\"Invalid log format.\")\n                    del self._log_number_offset[log_number + 1]\n                    continue\n",
         new=""),
    dict(id="c07-endswith-wrong-polarity", prop="C07", file=JF, expect="R07.4",
         old="                if not line.endswith(b\"\\n\"):", new="                if line.endswith(b\"\\n\"):"),
    dict(id="c07-no-size-bound", prop="C07", file=JF, expect="R07.4",
         old="                if remaining_log_size < 0:\n                    break\n", new=""),
    dict(id="c07-size-test-before-decrement", prop="C07", file=JF, expect="R07.4",
         old="                remaining_log_size -= byte_len\n                if remaining_log_size < 0:\n                    break\n",
         new="                if remaining_log_size < 0:\n                    break\n                remaining_log_size -= byte_len\n"),
    dict(id="c07-skip-bad-line-silently", prop="C07", file=JF, expect="R07.4",
         old="                if last_decode_error is not None:\n                    raise last_decode_error\n", new=""),
    dict(id="c07-keep-offset-of-rejected-line", prop="C07", file=JF, expect="R07.5",
         old="                    last_decode_error = err\n                    del self._log_number_offset[log_number + 1]\n",
         new="                    last_decode_error = err\n"),
    dict(id="c07-offset-off-by-one", prop="C07", file=JF, expect="R07.5",
         old="                        self._log_number_offset[log_number] + byte_len\n",
         new="                        self._log_number_offset[log_number] + byte_len + 1\n"),
    # neutral
    dict(id="c07-neutral-rename-byte_len", prop="C07", file=JF, expect=None, count=3,
         old="byte_len", new="n_bytes"),
    dict(id="c07-neutral-ge-form", prop="C07", file=JF, expect=None,
         old="                if remaining_log_size < 0:\n                    break\n",
         new="                if not remaining_log_size >= 0:\n                    break\n"),
    dict(id="c07-neutral-endswith-else", prop="C07", file=JF, expect=None,
         old="                if not line.endswith(b\"\\n\"):\n                    last_decode_error = ValueError(\"Invalid log format.\")\n                    del self._log_number_offset[log_number + 1]\n                    continue\n                if log_number < log_number_from:\n                    continue\n\n                try:\n                    logs.append(json.loads(line))\n                except json.JSONDecodeError as err:\n                    last_decode_error = err\n                    del self._log_number_offset[log_number + 1]\n",
         new="                if line.endswith(b\"\\n\"):\n                    if log_number < log_number_from:\n                        continue\n                    try:\n                        logs.append(json.loads(line))\n                    except json.JSONDecodeError as err:\n                        last_decode_error = err\n                        del self._log_number_offset[log_number + 1]\n                else:\n                    last_decode_error = ValueError(\"Invalid log format.\")\n                    del self._log_number_offset[log_number + 1]\n"),
    # F10 shape: the skip of lines below the requested number placed before the newline test again
    dict(id="c07-f10-shape-reintroduced", prop="C07", file=JF, expect="R07.5",
         old="                if not line.endswith(b\"\\n\"):\n                    last_decode_error = ValueError(\"Invalid log format.\")\n                    del self._log_number_offset[log_number + 1]\n                    continue\n                if log_number < log_number_from:\n                    continue\n",
         new="                if log_number < log_number_from:\n                    continue\n                if not line.endswith(b\"\\n\"):\n                    last_decode_error = ValueError(\"Invalid log format.\")\n                    del self._log_number_offset[log_number + 1]\n                    continue\n"),
]

VARIANTS += [
    dict(id="c07-offset-store-before-size-check", prop="C07", file=JF, expect="R07.5",
         old="                remaining_log_size -= byte_len\n                if remaining_log_size < 0:\n                    break\n                if last_decode_error is not None:\n                    raise last_decode_error\n                if log_number + 1 not in self._log_number_offset:\n                    self._log_number_offset[log_number + 1] = (\n                        self._log_number_offset[log_number] + byte_len\n                    )\n",
         new="                if log_number + 1 not in self._log_number_offset:\n                    self._log_number_offset[log_number + 1] = (\n                        self._log_number_offset[log_number] + byte_len\n                    )\n                remaining_log_size -= byte_len\n                if remaining_log_size < 0:\n                    break\n                if last_decode_error is not None:\n                    raise last_decode_error\n"),
]

VARIANTS += [
    # stale-lock take-over (R07.6)
    dict(id="c07-takeover-not-restarted-on-mtime-change", prop="C07", file=JF, expect="R07.6", count=2,
         old="                        if current_mtime != mtime:\n                            mtime = current_mtime\n                            last_update_monotonic_time = time.monotonic()\n",
         new="                        if current_mtime != mtime:\n                            mtime = current_mtime\n"),
    dict(id="c07-takeover-by-wall-clock-file-age", prop="C07", file=JF, expect="R07.6", count=2,
         old="                        if time.monotonic() - last_update_monotonic_time > self.grace_period:\n",
         new="                        if time.time() - current_mtime > self.grace_period:\n"),
    dict(id="c07-takeover-without-grace-test", prop="C07", file=JF, expect="R07.6", count=2,
         old="                        if time.monotonic() - last_update_monotonic_time > self.grace_period:\n",
         new="                        if current_mtime == mtime:\n"),
    dict(id="c07-neutral-grace-test-swapped", prop="C07", file=JF, expect=None, count=2,
         old="                        if time.monotonic() - last_update_monotonic_time > self.grace_period:\n",
         new="                        if self.grace_period < time.monotonic() - last_update_monotonic_time:\n"),
]

VARIANTS += [
    # F13 shape: the symlink lock stat-ed through the link
    dict(id="c07-f13-shape-reintroduced", prop="C07", file=JF, expect="R07.6",
         old="                            current_mtime = os.lstat(self._lock_file).st_mtime\n",
         new="                            current_mtime = os.stat(self._lock_file).st_mtime\n"),
    dict(id="c07-neutral-stat-no-follow", prop="C07", file=JF, expect=None,
         old="                            current_mtime = os.lstat(self._lock_file).st_mtime\n",
         new="                            current_mtime = os.stat(self._lock_file, follow_symlinks=False).st_mtime\n"),
]

VARIANTS += [
    dict(id="c07-append-unbuffered", prop="C07", file=JF, expect="R07.1",
         old="            with open(self._file_path, \"ab\") as f:\n",
         new="            with open(self._file_path, \"ab\", buffering=0) as f:\n"),
]

VARIANTS += [
    dict(id="c07-lock-release-after-failed-acquire", prop="C07", file=JF, expect="R07.3",
         old="    lock_obj.acquire()\n    try:\n        yield\n", new="    try:\n        lock_obj.acquire()\n        yield\n"),
]

VARIANTS += [
    dict(id="c07-empty-batch-blank-line", prop="C07", file=JF, expect="R07.7",
         old="            what_to_write = \"\".join(\n                [json.dumps(log, separators=(\",\", \":\")) + \"\\n\" for log in logs]\n            )\n",
         new="            what_to_write = \"\\n\".join([json.dumps(log, separators=(\",\", \":\")) for log in logs]) + \"\\n\"\n"),
    dict(id="c07-neutral-separator-form-guarded", prop="C07", file=JF, expect=None,
         old="            what_to_write = \"\".join(\n                [json.dumps(log, separators=(\",\", \":\")) + \"\\n\" for log in logs]\n            )\n",
         new="            if not logs:\n                return\n            what_to_write = \"\\n\".join([json.dumps(log, separators=(\",\", \":\")) for log in logs]) + \"\\n\"\n"),
    dict(id="c07-reader-raises-on-unterminated-line", prop="C07", file=JF, expect="R07.4",
         old="                    last_decode_error = ValueError(\"Invalid log format.\")\n                    del self._log_number_offset[log_number + 1]\n                    continue\n",
         new="                    del self._log_number_offset[log_number + 1]\n                    raise ValueError(\"Invalid log format.\")\n"),
    dict(id="c07-remembered-mtime-reset-in-loop", prop="C07", file=JF, expect="R07.6", count=2,
         old="                    if self.grace_period is not None:\n                        try:\n                            current_mtime = os.",
         new="                    mtime = None\n                    if self.grace_period is not None:\n                        try:\n                            current_mtime = os."),
]
