"""C08 self-validation variants."""
CS = "optuna/storages/_cached_storage.py"
GC = "optuna/storages/_grpc/client.py"
SV = "optuna/storages/_grpc/servicer.py"
RDB = "optuna/storages/_rdb/storage.py"

VARIANTS = [
    dict(id="c08-f3-shape-reintroduced", prop="C08", file=CS, expect="R08.1",
         old="            if not frozen_trial.state.is_finished():\n                study.unfinished_trial_ids.add(trial_id)\n",
         new="            if frozen_trial.state.is_finished():\n                study.last_finished_trial_id = max(study.last_finished_trial_id, trial_id)\n            else:\n                study.unfinished_trial_ids.add(trial_id)\n"),
    dict(id="c08-watermark-from-created-trial-object", prop="C08", file=CS, expect="R08.1",
         old="            if not frozen_trial.state.is_finished():\n                study.unfinished_trial_ids.add(trial_id)\n",
         new="            if frozen_trial.state.is_finished():\n                study.last_finished_trial_id = max(study.last_finished_trial_id, frozen_trial._trial_id)\n            else:\n                study.unfinished_trial_ids.add(trial_id)\n"),
    dict(id="c08-watermark-not-max", prop="C08", file=CS, expect="R08.1",
         old="                study.last_finished_trial_id = max(study.last_finished_trial_id, trial._trial_id)\n",
         new="                study.last_finished_trial_id = trial._trial_id\n"),
    dict(id="c08-fetch-with-stale-watermark", prop="C08", file=CS, expect="R08.1",
         old="                trial_id_greater_than=study.last_finished_trial_id,\n",
         new="                trial_id_greater_than=study.last_finished_trial_id + 1,\n"),
    dict(id="c08-fetch-without-unfinished", prop="C08", file=GC, expect="R08.1",
         old="            included_trial_ids=study.unfinished_trial_ids,\n", new="            included_trial_ids=[],\n"),
    dict(id="c08-grpc-watermark-from-number", prop="C08", file=GC, expect="R08.1",
         old="        study.last_finished_trial_id = max(study.last_finished_trial_id, trial._trial_id)\n",
         new="        study.last_finished_trial_id = max(study.last_finished_trial_id, trial.number)\n"),
    dict(id="c08-drop-unfinished-add", prop="C08", file=CS, expect="R08.2",
         old="                if not trial.state.is_finished():\n                    study.unfinished_trial_ids.add(trial._trial_id)\n                    continue\n",
         new="                if not trial.state.is_finished():\n                    continue\n"),
    dict(id="c08-grpc-drop-unfinished-add", prop="C08", file=GC, expect="R08.2",
         old="            study.unfinished_trial_ids.add(trial._trial_id)\n            return\n", new="            return\n"),
    dict(id="c08-grpc-never-discard", prop="C08", file=GC, expect="R08.2",
         old="        study.unfinished_trial_ids.discard(trial._trial_id)\n", new=""),
    dict(id="c08-only-running-tracked", prop="C08", file=CS, expect="R08.2",
         old="                if not trial.state.is_finished():\n                    study.unfinished_trial_ids.add(trial._trial_id)\n                    continue\n",
         new="                if not trial.state.is_finished():\n                    if trial.state == TrialState.RUNNING:\n                        study.unfinished_trial_ids.add(trial._trial_id)\n                    continue\n"),
    dict(id="c08-serve-unfinished", prop="C08", file=CS, expect="R08.3",
         old="        return study.trials[number] if trial_id not in study.unfinished_trial_ids else None\n",
         new="        return study.trials[number]\n"),
    dict(id="c08-serve-guard-flipped", prop="C08", file=CS, expect="R08.3",
         old="        return study.trials[number] if trial_id not in study.unfinished_trial_ids else None\n",
         new="        return study.trials[number] if trial_id in study.unfinished_trial_ids else None\n"),
    dict(id="c08-skip-sync", prop="C08", file=CS, expect="R08.4",
         old="        self._read_trials_from_remote_storage(study_id)\n\n        with self._lock:\n            study = self._studies[study_id]",
         new="        if study_id not in self._studies:\n            self._read_trials_from_remote_storage(study_id)\n\n        with self._lock:\n            study = self._studies[study_id]"),
    dict(id="c08-grpc-skip-sync-when-filtered", prop="C08", file=GC, expect="R08.4",
         old="            self._read_trials_from_remote_storage(study_id)\n            study = self.studies[study_id]\n",
         new="            if states is None or study_id not in self.studies:\n                self._read_trials_from_remote_storage(study_id)\n            study = self.studies[study_id]\n"),
    dict(id="c08-servicer-ge", prop="C08", file=SV, expect="R08.5",
         old="if t._trial_id > trial_id_greater_than or t._trial_id in included_trial_ids",
         new="if t._trial_id > trial_id_greater_than + 1 or t._trial_id in included_trial_ids"),
    dict(id="c08-servicer-and", prop="C08", file=SV, expect="R08.5",
         old="if t._trial_id > trial_id_greater_than or t._trial_id in included_trial_ids",
         new="if t._trial_id > trial_id_greater_than and t._trial_id not in included_trial_ids"),
    dict(id="c08-rdb-fallback-ge", prop="C08", file=RDB, expect="R08.5",
         old="if t.trial_id in included_trial_ids or t.trial_id > trial_id_greater_than",
         new="if t.trial_id in included_trial_ids or t.trial_id >= trial_id_greater_than + 2"),
    dict(id="c08-rdb-sql-drops-included", prop="C08", file=RDB, expect="R08.5",
         old="                        sqlalchemy.or_(\n                            models.TrialModel.trial_id.in_(included_trial_ids),\n                            models.TrialModel.trial_id > trial_id_greater_than,\n                        )",
         new="                        sqlalchemy.and_(\n                            models.TrialModel.trial_id.in_(included_trial_ids),\n                            models.TrialModel.trial_id > trial_id_greater_than,\n                        )"),
    dict(id="c08-unsorted", prop="C08", file=CS, expect="R08.6",
         old="            trials = list(sorted(trials.values(), key=lambda t: t.number))\n", new="            trials = list(trials.values())\n"),
    dict(id="c08-grpc-sorted-by-id", prop="C08", file=GC, expect="R08.6",
         old="            trials = list(sorted(trials.values(), key=lambda t: t.number))\n", new="            trials = list(sorted(trials.values(), key=lambda t: t._trial_id))\n"),
    dict(id="c08-no-invalidate", prop="C08", file=GC, expect="R08.7",
         old="        self._cache.delete_study_cache(study_id)\n", new=""),
    dict(id="c08-cached-delete-keeps-id-map", prop="C08", file=CS, expect="R08.7",
         old="                    if trial_id in self._trial_id_to_study_id_and_number:\n                        del self._trial_id_to_study_id_and_number[trial_id]\n", new=""),
    # neutral
    dict(id="c08-neutral-discard", prop="C08", file=CS, expect=None,
         old="                if trial._trial_id in study.unfinished_trial_ids:\n                    study.unfinished_trial_ids.remove(trial._trial_id)\n",
         new="                study.unfinished_trial_ids.discard(trial._trial_id)\n"),
    dict(id="c08-neutral-if-else", prop="C08", file=GC, expect=None,
         old="        if not trial.state.is_finished():\n            study.unfinished_trial_ids.add(trial._trial_id)\n            return\n\n        study.last_finished_trial_id = max(study.last_finished_trial_id, trial._trial_id)\n        study.unfinished_trial_ids.discard(trial._trial_id)\n",
         new="        if trial.state.is_finished():\n            study.last_finished_trial_id = max(trial._trial_id, study.last_finished_trial_id)\n            study.unfinished_trial_ids.discard(trial._trial_id)\n        else:\n            study.unfinished_trial_ids.add(trial._trial_id)\n"),
    dict(id="c08-neutral-wm-lt", prop="C08", file=SV, expect=None,
         old="if t._trial_id > trial_id_greater_than or t._trial_id in included_trial_ids",
         new="if trial_id_greater_than < t._trial_id or t._trial_id in included_trial_ids"),
]

GC8 = "optuna/storages/_grpc/client.py"
VARIANTS += [
    dict(id="c08-grpc-cache-entry-survives-not-found", prop="C08", file=GC8, expect="R08.7",
         old="            if e.code() == grpc.StatusCode.NOT_FOUND:\n                self.studies.pop(study_id, None)\n                raise KeyError from e\n",
         new="            if e.code() == grpc.StatusCode.NOT_FOUND:\n                raise KeyError from e\n"),
    dict(id="c08-neutral-grpc-cache-del-on-not-found", prop="C08", file=GC8, expect=None,
         old="                self.studies.pop(study_id, None)\n                raise KeyError from e\n",
         new="                del self.studies[study_id]\n                raise KeyError from e\n"),
]

CS8 = "optuna/storages/_cached_storage.py"
RDB8 = "optuna/storages/_rdb/storage.py"
VARIANTS += [
    dict(id="c08-number-lookup-memoised", prop="C08", file=CS8, expect="R08.7",
         old="        return self._backend.get_trial_id_from_study_id_trial_number(study_id, trial_number)\n",
         new="        trial_id = self._backend.get_trial_id_from_study_id_trial_number(study_id, trial_number)\n        with self._lock:\n            self._study_id_and_number_to_trial_id[key] = trial_id\n        return trial_id\n"),
    dict(id="c08-rdb-fallback-chunks-drop-tail", prop="C08", file=RDB8, expect="R08.5",
         old="                trial_models = [\n                    t\n                    for t in trial_models\n                    if t.trial_id in included_trial_ids or t.trial_id > trial_id_greater_than\n                ]\n",
         new="                ids = sorted(included_trial_ids)\n                trial_models = [t for t in trial_models if t.trial_id > trial_id_greater_than]\n                for i in range(len(ids) // 500):\n                    id_slice = ids[i * 500 : (i + 1) * 500]\n                    trial_models += query.filter(models.TrialModel.trial_id.in_(id_slice)).all()\n"),
    dict(id="c08-neutral-rdb-fallback-chunks-complete", prop="C08", file=RDB8, expect=None,
         old="                trial_models = [\n                    t\n                    for t in trial_models\n                    if t.trial_id in included_trial_ids or t.trial_id > trial_id_greater_than\n                ]\n",
         new="                ids = sorted(included_trial_ids)\n                trial_models = [t for t in trial_models if t.trial_id > trial_id_greater_than]\n                for i in range(0, len(ids), 500):\n                    id_slice = ids[i : i + 500]\n                    trial_models += query.filter(models.TrialModel.trial_id.in_(id_slice)).all()\n"),
]

VARIANTS += [
    dict(id="c08-grpc-refresh-outside-lock", prop="C08", file=GC, expect="R08.1",
         old="        with self.lock:\n            self._read_trials_from_remote_storage(study_id)\n",
         new="        self._read_trials_from_remote_storage(study_id)\n        with self.lock:\n"),
]

VARIANTS += [
    dict(id="c08-cached-delete-backend-outside-lock", prop="C08", file=CS, expect="R08.7",
         old="            # The study is deleted in the backend before the lock is released. Otherwise a\n            # concurrent reader could fill the cache again from the study that still exists.\n            self._backend.delete_study(study_id)\n",
         new="        self._backend.delete_study(study_id)\n"),
    dict(id="c08-cached-study-entry-dropped-in-trial-loop", prop="C08", file=CS, expect="R08.7",
         old="                        del self._study_id_and_number_to_trial_id[(study_id, trial_number)]\n                del self._studies[study_id]\n",
         new="                        del self._study_id_and_number_to_trial_id[(study_id, trial_number)]\n                    self._studies.pop(study_id, None)\n"),
    dict(id="c08-cached-fetch-filtered-by-state", prop="C08", file=CS, expect="R08.1",
         old="                states=None,\n                included_trial_ids=study.unfinished_trial_ids,",
         new="                states=(TrialState.COMPLETE,),\n                included_trial_ids=study.unfinished_trial_ids,"),
]
