"""C09 self-validation variants."""
TPE = "optuna/samplers/_tpe/sampler.py"
PD = "optuna/samplers/_tpe/probability_distributions.py"
GP = "optuna/samplers/_gp/sampler.py"
RND = "optuna/samplers/_random.py"
NS = "optuna/samplers/nsgaii/_sampler.py"
GR = "optuna/samplers/_grid.py"
SH = "optuna/pruners/_successive_halving.py"
OM = "optuna/_gp/optim_mixed.py"
ST = "optuna/study/study.py"
HY = "optuna/pruners/_hyperband.py"

VARIANTS = [
    dict(id="c09-sort-by-trial-id", prop="C09", file=TPE, expect="R09.1",
         old="        sorted_trials = sorted(trials, key=lambda trial: cast(float, trial.value))\n",
         new="        sorted_trials = sorted(trials, key=lambda trial: (cast(float, trial.value), trial._trial_id))\n"),
    dict(id="c09-grid-id-from-trial-id", prop="C09", file=GR, expect="R09.1",
         old="            study._storage.set_trial_system_attr(trial._trial_id, \"grid_id\", trial.number)",
         new="            study._storage.set_trial_system_attr(trial._trial_id, \"grid_id\", trial._trial_id)"),
    dict(id="c09-bracket-by-trial-id", prop="C09", file=HY, expect="R09.1",
         old="            binascii.crc32(\"{}_{}\".format(study.study_name, trial.number).encode())",
         new="            binascii.crc32(\"{}_{}\".format(study.study_name, trial._trial_id).encode())"),
    dict(id="c09-seed-from-study-id", prop="C09", file=SH, expect="R09.1",
         old="        rung = _get_current_rung(trial)\n", new="        rung = _get_current_rung(trial) + (study._study_id % 1)\n"),
    dict(id="c09-alias-then-compare", prop="C09", file=SH, expect="R09.1",
         old="        rung = _get_current_rung(trial)\n", new="        tid = trial._trial_id\n        rung = _get_current_rung(trial) if tid >= 0 else 0\n"),
    dict(id="c09-module-random", prop="C09", file=RND, expect="R09.2",
         old="        search_space = {param_name: param_distribution}\n", new="        search_space = {param_name: param_distribution}\n        numpy.random.shuffle([])\n"),
    dict(id="c09-truncnorm-no-rng", prop="C09", file=PD, expect="R09.2",
         old="                    random_state=rng,\n                )\n                # The inverse CDF saturates", new="                )\n                # The inverse CDF saturates"),
    dict(id="c09-gp-no-rng", prop="C09", file=GP, expect="R09.2",
         old="            rng=self._rng.rng,\n", new=""),
    dict(id="c09-gp-fresh-rng", prop="C09", file=GP, expect="R09.2",
         old="            rng=self._rng.rng,\n", new="            rng=np.random.RandomState(),\n"),
    dict(id="c09-mixed-drops-rng", prop="C09", file=OM, expect="R09.2",
         old="    sampled_xs = sample_normalized_params(n_preliminary_samples, acqf_params.search_space, rng=rng)",
         new="    sampled_xs = sample_normalized_params(n_preliminary_samples, acqf_params.search_space, rng=None)"),
    dict(id="c09-time-tiebreak", prop="C09", file=NS, expect="R09.2",
         old="    def sample_relative(\n        self,\n        study: Study,\n        trial: FrozenTrial,\n        search_space: dict[str, BaseDistribution],\n    ) -> dict[str, Any]:\n",
         new="    def sample_relative(\n        self,\n        study: Study,\n        trial: FrozenTrial,\n        search_space: dict[str, BaseDistribution],\n    ) -> dict[str, Any]:\n        _now = time.time()\n"),
    dict(id="c09-sampler-ignores-seed", prop="C09", file=RND, expect="R09.2",
         old="        self._rng = LazyRandomState(seed)\n", new="        self._rng = LazyRandomState()\n"),
    dict(id="c09-copy-study-skips-system-attrs", prop="C09", file=ST, expect="R09.4",
         old="    for key, value in from_study._storage.get_study_system_attrs(from_study._study_id).items():\n        to_study._storage.set_study_system_attr(to_study._study_id, key, value)\n\n", new=""),
    dict(id="c09-copy-study-complete-only", prop="C09", file=ST, expect="R09.4",
         old="    to_study.add_trials(from_study.get_trials(deepcopy=False))\n", new="    to_study.add_trials(from_study.get_trials(deepcopy=False, states=(TrialState.COMPLETE,)))\n"),
    dict(id="c09-copy-study-directions-default", prop="C09", file=ST, expect="R09.4",
         old="        directions=from_study.directions,\n        load_if_exists=False,\n", new="        load_if_exists=False,\n"),
    # neutral
    dict(id="c09-neutral-alias-id-arg", prop="C09", file=SH, expect=None,
         old="            study._storage.set_trial_system_attr(trial._trial_id, rung_key, value)\n",
         new="            tid = trial._trial_id\n            study._storage.set_trial_system_attr(tid, rung_key, value)\n"),
    dict(id="c09-neutral-keyword-id", prop="C09", file=SH, expect=None,
         old="            study._storage.set_trial_system_attr(trial._trial_id, rung_key, value)\n",
         new="            study._storage.set_trial_system_attr(trial_id=trial._trial_id, key=rung_key, value=value)\n"),
]

VARIANTS += [
    dict(id="c09-sort-by-start-time", prop="C09", file=TPE, expect="R09.1",
         old="        sorted_trials = sorted(trials, key=lambda trial: cast(float, trial.value))\n",
         new="        sorted_trials = sorted(trials, key=lambda trial: (cast(float, trial.value), trial.datetime_start))\n"),
]

TPE9 = "optuna/samplers/_tpe/sampler.py"
GRID9 = "optuna/samplers/_grid.py"
VARIANTS += [
    dict(id="c09-pruned-score-from-last-dict-item", prop="C09", file=TPE9, expect="R09.6",
         old="        step, intermediate_value = max(trial.intermediate_values.items())\n",
         new="        step, intermediate_value = next(reversed(trial.intermediate_values.items()))\n"),
    dict(id="c09-pruned-score-from-list-index", prop="C09", file=TPE9, expect="R09.6",
         old="        step, intermediate_value = max(trial.intermediate_values.items())\n",
         new="        step, intermediate_value = list(trial.intermediate_values.items())[-1]\n"),
    dict(id="c09-neutral-pruned-score-sorted", prop="C09", file=TPE9, expect=None,
         old="        step, intermediate_value = max(trial.intermediate_values.items())\n",
         new="        step, intermediate_value = sorted(trial.intermediate_values.items())[-1]\n"),
    dict(id="c09-grid-value-identity", prop="C09", file=GRID9, expect="R09.7",
         old="        return (value1 == value2) or (value1_is_nan and value2_is_nan)\n",
         new="        return value1 is value2 or value1 == value2\n"),
]

VARIANTS += [
    dict(id="c09-cache-entry-type-test", prop="C09", file="optuna/samplers/_nsgaiii/_sampler.py", expect="R09.8",
         old="            cached_generation, cached_population_numbers = study_system_attrs.get(\n                cache_key, (-1, [])\n            )\n",
         new="            entry = study_system_attrs.get(cache_key)\n            if type(entry) is not tuple:\n                entry = (-1, [])\n            cached_generation, cached_population_numbers = entry\n"),
    dict(id="c09-neutral-cache-entry-list-or-tuple", prop="C09", file="optuna/samplers/_nsgaiii/_sampler.py", expect=None,
         old="            cached_generation, cached_population_numbers = study_system_attrs.get(\n                cache_key, (-1, [])\n            )\n",
         new="            entry = study_system_attrs.get(cache_key)\n            if not isinstance(entry, (list, tuple)):\n                entry = (-1, [])\n            cached_generation, cached_population_numbers = entry\n"),
    dict(id="c09-constraints-stored-by-reference", prop="C09", file="optuna/samplers/_base.py", expect="R09.9",
         old="        constraints = tuple(con)\n", new="        constraints = con\n"),
]

VARIANTS += [
    dict(id="c09-repair-copy-study-skips-revalidation", prop="C09", file=ST, expect=None, absent="copy-not-refused-by-revalidation",
         old="        trial._validate()\n", new="        pass\n"),
]
