"""C10 self-validation variants."""
TR = "optuna/trial/_trial.py"
TF = "optuna/_transform.py"
BF = "optuna/samplers/_brute_force.py"

VARIANTS = [
    dict(id="c10-no-reuse", prop="C10", file=TR, expect="R10",
         old="        if name in trial.distributions:\n            # No need to sample if already suggested.\n            distributions.check_distribution_compatibility(trial.distributions[name], distribution)\n            param_value = trial.params[name]\n        else:\n            if self._is_fixed_param",
         new="        if False:\n            param_value = trial.params[name]\n        else:\n            if self._is_fixed_param"),
    dict(id="c10-independent-before-fixed", prop="C10", file=TR, expect="R10.1",
         old="            if self._is_fixed_param(name, distribution):\n                param_value = self._fixed_params[name]\n            elif distribution.single():",
         new="            if not self._is_relative_param(name, distribution) and not distribution.single() and name.startswith(\"_\"):\n                param_value = self.study.sampler.sample_independent(self.study, trial, name, distribution)\n            elif self._is_fixed_param(name, distribution):\n                param_value = self._fixed_params[name]\n            elif distribution.single():"),
    dict(id="c10-store-rounded", prop="C10", file=TR, expect="R10.3",
         old="            param_value_in_internal_repr = distribution.to_internal_repr(param_value)\n            storage.set_trial_param(",
         new="            param_value_in_internal_repr = round(distribution.to_internal_repr(param_value), 12)\n            storage.set_trial_param("),
    dict(id="c10-return-different-local", prop="C10", file=TR, expect="R10.3",
         old="            self._cached_frozen_trial.params[name] = param_value\n        return param_value\n",
         new="            self._cached_frozen_trial.params[name] = param_value\n            param_value = distribution.to_external_repr(param_value_in_internal_repr)\n        return param_value\n"),
    dict(id="c10-cache-before-store", prop="C10", file=TR, expect="R10.3",
         old="            storage.set_trial_param(trial_id, name, param_value_in_internal_repr, distribution)\n\n            self._cached_frozen_trial.distributions[name] = distribution\n            self._cached_frozen_trial.params[name] = param_value\n",
         new="            self._cached_frozen_trial.distributions[name] = distribution\n            self._cached_frozen_trial.params[name] = param_value\n            storage.set_trial_param(trial_id, name, param_value_in_internal_repr, distribution)\n\n"),
    dict(id="c10-skip-store-for-single", prop="C10", file=TR, expect="R10.3",
         old="            storage.set_trial_param(trial_id, name, param_value_in_internal_repr, distribution)\n",
         new="            if not distribution.single():\n                storage.set_trial_param(trial_id, name, param_value_in_internal_repr, distribution)\n"),
    dict(id="c10-suggest-int-not-int", prop="C10", file=TR, expect="R10.3",
         old="        suggested_value = int(self._suggest(name, distribution))\n", new="        suggested_value = self._suggest(name, distribution)\n"),
    dict(id="c10-float-dist-swapped", prop="C10", file=TR, expect="R10.3",
         old="        distribution = FloatDistribution(low, high, log=log, step=step)\n", new="        distribution = FloatDistribution(low, high, log=log, step=None)\n"),
    dict(id="c10-relative-no-contains", prop="C10", file=TR, expect="R10.4",
         old="        return distribution._contains(param_value_in_internal_repr)\n\n    def _check_distribution", new="        return True\n\n    def _check_distribution"),
    dict(id="c10-relative-contains-other-value", prop="C10", file=TR, expect="R10.4",
         old="        param_value = self.relative_params[name]\n        param_value_in_internal_repr = distribution.to_internal_repr(param_value)\n        return distribution._contains(param_value_in_internal_repr)\n\n    def _check_distribution",
         new="        param_value = self.relative_params[name]\n        param_value_in_internal_repr = relative_distribution.to_internal_repr(param_value)\n        return relative_distribution._contains(param_value_in_internal_repr)\n\n    def _check_distribution"),
    dict(id="c10-relative-no-space-check", prop="C10", file=TR, expect="R10.4",
         old="        if name not in self.relative_search_space:\n            raise ValueError(", new="        if False:\n            raise ValueError("),
    dict(id="c10-exp-without-log-guard", prop="C10", file=TF, expect="R10.5",
         old="            param = math.exp(trans_param) if transform_log else trans_param\n            if d.single():",
         new="            param = math.exp(trans_param)\n            if d.single():"),
    dict(id="c10-int-log-asymmetric", prop="C10", file=TF, expect="R10.5",
         old="    elif isinstance(d, IntDistribution):\n        if d.log:\n            trans_param = math.log(param) if transform_log else float(param)",
         new="    elif isinstance(d, IntDistribution):\n        if d.log and d.step == 1:\n            trans_param = math.log(param) if transform_log else float(param)"),
    dict(id="c10-untransform-no-clip-int", prop="C10", file=TF, expect="R10.5",
         old="            param = int(\n                np.clip(np.round((trans_param - d.low) / d.step) * d.step + d.low, d.low, d.high)\n            )\n    else:\n        assert False",
         new="            param = int(np.round((trans_param - d.low) / d.step) * d.step + d.low)\n    else:\n        assert False"),
    dict(id="c10-untransform-float-no-cap", prop="C10", file=TF, expect="R10.5",
         old="            if d.single():\n                param = trans_param\n            else:\n                param = min(trans_param, np.nextafter(d.high, d.high - 1))",
         new="            param = trans_param"),
    dict(id="c10-untransform-clip-wrong-bound", prop="C10", file=TF, expect="R10.5",
         old="                param = int(np.clip(np.round(math.exp(trans_param)), d.low, d.high))", new="                param = int(np.clip(np.round(math.exp(trans_param)), d.low, d.high + 1))"),
    dict(id="c10-bruteforce-missing-int", prop="C10", file=BF, expect="R10.5",
         old="    elif isinstance(param_distribution, IntDistribution):\n        return list(\n            range(param_distribution.low, param_distribution.high + 1, param_distribution.step)\n        )\n", new=""),
    # neutral
    dict(id="c10-neutral-rename-internal", prop="C10", file=TR, expect=None, count=2,
         old="            param_value_in_internal_repr = distribution.to_internal_repr(param_value)\n            storage.set_trial_param(trial_id, name, param_value_in_internal_repr, distribution)",
         new="            internal = distribution.to_internal_repr(param_value)\n            storage.set_trial_param(trial_id, name, internal, distribution)").__class__(
         id="c10-neutral-rename-internal", prop="C10", file=TR, expect=None,
         old="            param_value_in_internal_repr = distribution.to_internal_repr(param_value)\n            storage.set_trial_param(trial_id, name, param_value_in_internal_repr, distribution)",
         new="            internal = distribution.to_internal_repr(param_value)\n            storage.set_trial_param(trial_id, name, internal, distribution)"),
    dict(id="c10-neutral-ifstmt-exp", prop="C10", file=TF, expect=None,
         old="            param = math.exp(trans_param) if transform_log else trans_param\n            if d.single():",
         new="            if transform_log:\n                param = math.exp(trans_param)\n            else:\n                param = trans_param\n            if d.single():"),
]

VARIANTS += [
    dict(id="c10-random-caches-transform-by-name", prop="C10", file="optuna/samplers/_random.py", expect="R10.6",
         old="        search_space = {param_name: param_distribution}\n        trans = _SearchSpaceTransform(search_space)\n",
         new="        trans = getattr(self, \"_t\", {}).get(param_name)\n        if trans is None:\n            trans = _SearchSpaceTransform({param_name: param_distribution})\n"),
    dict(id="c10-neutral-inline-space", prop="C10", file="optuna/samplers/_random.py", expect=None,
         old="        search_space = {param_name: param_distribution}\n        trans = _SearchSpaceTransform(search_space)\n",
         new="        trans = _SearchSpaceTransform({param_name: param_distribution})\n"),
]

TR10 = "optuna/trial/_trial.py"
VARIANTS += [
    dict(id="c10-enqueued-none-not-fixed", prop="C10", file=TR10, expect="R10.1",
         old="        if name not in self._fixed_params:\n            return False\n\n        param_value = self._fixed_params[name]\n",
         new="        param_value = self._fixed_params.get(name)\n        if param_value is None:\n            return False\n"),
]

VARIANTS += [
    dict(id="c10-tpe-float-sample-unclipped", prop="C10", file="optuna/samplers/_tpe/probability_distributions.py", expect="R10.8",
         old="                ret[:, i] = np.clip(samples, d.low, d.high)\n", new="                ret[:, i] = samples\n"),
    dict(id="c10-tpe-int-round-to-multiples", prop="C10", file="optuna/samplers/_tpe/probability_distributions.py", expect="R10.7",
         old="                    d.low + np.round((samples - d.low) / d.step) * d.step, d.low, d.high\n",
         new="                    np.round(samples / d.step) * d.step, d.low, d.high\n"),
    dict(id="c10-transform-round-unanchored", prop="C10", file="optuna/_transform.py", expect="R10.7", count=2,
         old="np.clip(np.round((trans_param - d.low) / d.step) * d.step + d.low, d.low, d.high)",
         new="np.clip(np.round(trans_param / d.step) * d.step, d.low, d.high)"),
]

VARIANTS += [
    dict(id="c10-grid-tolerance-relative", prop="C10", file="optuna/distributions.py", expect="R10.10",
         old="abs(k - round(k)) < 1.0e-8", new="abs(k - round(k)) < 1.0e-8 * max(1.0, abs(k))"),
    dict(id="c10-neutral-grid-tolerance-named-constant", prop="C10", file="optuna/distributions.py", expect=None,
         old="            return self.low <= value <= self.high and abs(k - round(k)) < 1.0e-8",
         new="            tolerance = 1.0e-8\n            return self.low <= value <= self.high and abs(k - round(k)) < tolerance"),
    dict(id="c10-trial-params-uncopied", prop="C10", file="optuna/trial/_trial.py", expect="R10.9",
         old="        return copy.deepcopy(self._cached_frozen_trial.params)\n", new="        return self._cached_frozen_trial.params\n"),
]
