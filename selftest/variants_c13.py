"""C13 self-validation variants."""
PC = "optuna/pruners/_percentile.py"
PA = "optuna/pruners/_patient.py"
SH = "optuna/pruners/_successive_halving.py"
WI = "optuna/pruners/_wilcoxon.py"
TPE = "optuna/samplers/_tpe/sampler.py"
GP = "optuna/samplers/_gp/sampler.py"
CMA = "optuna/samplers/_cmaes.py"
NS = "optuna/samplers/nsgaii/_elite_population_selection_strategy.py"
MO = "optuna/study/_multi_objective.py"
ST = "optuna/study/study.py"
BASE = "optuna/storages/_base.py"
IM = "optuna/storages/_in_memory.py"
MODELS = "optuna/storages/_rdb/models.py"

VARIANTS = [
    dict(id="c13-pct-same-compare", prop="C13", file=PC, expect="R13.2",
         old="            return best_intermediate_result < p\n        return best_intermediate_result > p\n",
         new="            return best_intermediate_result > p\n        return best_intermediate_result > p\n"),
    dict(id="c13-pct-best-both-min", prop="C13", file=PC, expect="R13.2",
         old="        return np.nanmax(values)\n    return np.nanmin(values)\n", new="        return np.nanmin(values)\n    return np.nanmin(values)\n"),
    dict(id="c13-pct-no-percentile-mirror", prop="C13", file=PC, expect="R13.2",
         old="        percentile = 100 - percentile\n", new="        percentile = percentile\n"),
    dict(id="c13-patient-delta-not-mirrored", prop="C13", file=PA, expect="R13.2",
         old="            maybe_prune = np.nanmax(scores_before_patience) - self._min_delta > np.nanmax(",
         new="            maybe_prune = np.nanmax(scores_before_patience) + self._min_delta > np.nanmax("),
    dict(id="c13-patient-max-min-mixed", prop="C13", file=PA, expect="R13.2",
         old="            maybe_prune = np.nanmax(scores_before_patience) - self._min_delta > np.nanmax(\n                scores_after_patience",
         new="            maybe_prune = np.nanmax(scores_before_patience) - self._min_delta > np.nanmin(\n                scores_after_patience"),
    dict(id="c13-sh-index-not-mirrored", prop="C13", file=SH, expect="R13.2",
         old="        return value >= competing_values[-(promotable_idx + 1)]\n", new="        return value >= competing_values[promotable_idx]\n"),
    dict(id="c13-sh-compare-same", prop="C13", file=SH, expect="R13.2",
         old="        return value >= competing_values[-(promotable_idx + 1)]\n", new="        return value <= competing_values[-(promotable_idx + 1)]\n"),
    dict(id="c13-wilcoxon-alt-same", prop="C13", file=WI, expect="R13.2",
         old="            alt = \"greater\"\n", new="            alt = \"less\"\n"),
    dict(id="c13-wilcoxon-avg-same", prop="C13", file=WI, expect="R13.2",
         old="            average_is_best = sum(best_step_values) / len(best_step_values) >= sum(", new="            average_is_best = sum(best_step_values) / len(best_step_values) <= sum("),
    dict(id="c13-tpe-sort-same", prop="C13", file=TPE, expect="R13.2",
         old="        sorted_trials = sorted(trials, key=lambda trial: cast(float, trial.value), reverse=True)\n",
         new="        sorted_trials = sorted(trials, key=lambda trial: cast(float, trial.value))\n"),
    dict(id="c13-tpe-pruned-score-sign-lost", prop="C13", file=TPE, expect="R13.2",
         old="            return -step, -intermediate_value\n", new="            return -step, intermediate_value\n"),
    dict(id="c13-tpe-mo-sign-same", prop="C13", file=TPE, expect="R13.2", count=2,
         old="lvals *= np.array([-1.0 if d == StudyDirection.MAXIMIZE else 1.0 for d in study.directions])",
         new="lvals *= np.array([1.0 if d == StudyDirection.MAXIMIZE else 1.0 for d in study.directions])"),
    dict(id="c13-gp-sign-same", prop="C13", file=GP, expect="R13.2",
         old="        _sign = -1.0 if study.direction == StudyDirection.MINIMIZE else 1.0\n", new="        _sign = -1.0 if study.direction == StudyDirection.MINIMIZE else -1.0\n"),
    dict(id="c13-gp-sign-unused", prop="C13", file=GP, expect="R13.3",
         old="        score_vals = np.array([_sign * cast(float, trial.value) for trial in trials])\n", new="        score_vals = np.array([cast(float, trial.value) for trial in trials])\n"),
    dict(id="c13-cma-value-not-negated", prop="C13", file=CMA, expect="R13.2",
         old="                y = t.value if study.direction == StudyDirection.MINIMIZE else -t.value\n", new="                y = t.value if study.direction == StudyDirection.MINIMIZE else t.value\n"),
    dict(id="c13-nsga-sign-same", prop="C13", file=NS, expect="R13.2",
         old="        [-1.0 if d == StudyDirection.MAXIMIZE else 1.0 for d in directions]", new="        [1.0 if d == StudyDirection.MAXIMIZE else 1.0 for d in directions]"),
    dict(id="c13-normalize-no-negation", prop="C13", file=MO, expect="R13.2",
         old="    if direction is StudyDirection.MAXIMIZE:\n        value = -value\n", new="    if direction is StudyDirection.MAXIMIZE:\n        value = value\n"),
    dict(id="c13-best-trial-fallback-both-min", prop="C13", file=ST, expect="R13.2",
         old="                best_trial = max(feasible_trials, key=lambda t: cast(float, t.value))\n", new="                best_trial = min(feasible_trials, key=lambda t: cast(float, t.value))\n"),
    dict(id="c13-base-best-both-max", prop="C13", file=BASE, expect="R13.2",
         old="            best_trial = min(all_trials, key=lambda t: cast(float, t.value))\n", new="            best_trial = max(all_trials, key=lambda t: cast(float, t.value))\n"),
    dict(id="c13-inmem-cache-same-compare", prop="C13", file=IM, expect="R13.2",
         old="            if best_value > new_value:\n", new="            if best_value < new_value:\n"),
    dict(id="c13-sql-second-key-not-mirrored", prop="C13", file=MODELS, expect="R13.2b",
         old="                asc(TrialValueModel.value),\n", new="                desc(TrialValueModel.value),\n"),
    dict(id="c13-percentile-pruner-ignores-direction", prop="C13", file=PC, expect="R13",
         old="        if direction == StudyDirection.MAXIMIZE:\n            return best_intermediate_result < p\n        return best_intermediate_result > p\n",
         new="        return best_intermediate_result > p\n").__class__(id="c13-patient-ignores-direction", prop="C13", file=PA, expect="R13.4",
         old="        direction = study.direction\n        if direction == StudyDirection.MINIMIZE:\n            maybe_prune = np.nanmin(scores_before_patience) + self._min_delta < np.nanmin(\n                scores_after_patience\n            )\n        else:\n            maybe_prune = np.nanmax(scores_before_patience) - self._min_delta > np.nanmax(\n                scores_after_patience\n            )\n",
         new="        maybe_prune = np.nanmin(scores_before_patience) + self._min_delta < np.nanmin(\n            scores_after_patience\n        )\n", accept_error=True),
    # neutral
    dict(id="c13-neutral-swap-operands", prop="C13", file=PC, expect=None,
         old="            return best_intermediate_result < p\n        return best_intermediate_result > p\n",
         new="            return best_intermediate_result < p\n        return p < best_intermediate_result\n"),
    dict(id="c13-neutral-else-form", prop="C13", file=PC, expect=None,
         old="        return np.nanmax(values)\n    return np.nanmin(values)\n", new="        return np.nanmax(values)\n    else:\n        return np.nanmin(values)\n"),
    dict(id="c13-neutral-strictness", prop="C13", file=SH, expect=None,
         old="        return value >= competing_values[-(promotable_idx + 1)]\n", new="        return value > competing_values[-(promotable_idx + 1)]\n"),
]

NS3 = "optuna/samplers/_nsgaiii/_elite_population_selection_strategy.py"
VARIANTS += [
    dict(id="c13-f7-shape-reintroduced", prop="C13", file=NS3, expect="R13.6",
         old="                    _filter_inf(elite_population + population) * signs\n", new="                    _filter_inf(elite_population + population)\n"),
    dict(id="c13-f8-shape-reintroduced", prop="C13", file=NS, expect="R13",
         old="        sign = 1.0 if signs is None else signs[i]\n        population.sort(key=lambda x: sign * x.values[i])\n", new="        sign = 1.0\n        population.sort(key=lambda x: x.values[i])\n"),
    dict(id="c13-gp-direction-applied-twice", prop="C13", file=GP, expect="R13.3",
         old="            max_Y = -np.inf if is_all_infeasible else np.max(standardized_score_vals[is_feasible])\n",
         new="            if is_all_infeasible:\n                max_Y = -np.inf\n            elif study.direction == StudyDirection.MINIMIZE:\n                max_Y = np.min(standardized_score_vals[is_feasible])\n            else:\n                max_Y = np.max(standardized_score_vals[is_feasible])\n"),
    dict(id="c13-wilcoxon-comparison-hoisted", prop="C13", file=WI, expect="R13.5",
         old="        if study.direction == StudyDirection.MAXIMIZE:\n            alt = \"less\"\n            average_is_best = sum(best_step_values) / len(best_step_values) <= sum(\n                step_values\n            ) / len(step_values)\n        else:\n            alt = \"greater\"\n            average_is_best = sum(best_step_values) / len(best_step_values) >= sum(\n                step_values\n            ) / len(step_values)\n",
         new="        best_average = sum(best_step_values) / len(best_step_values)\n        average = sum(step_values) / len(step_values)\n        alt = \"less\" if study.direction == StudyDirection.MAXIMIZE else \"greater\"\n        average_is_best = best_average >= average\n"),
]

PCT13 = "optuna/pruners/_percentile.py"
VARIANTS += [
    dict(id="c13-percentile-posinf-dropped", prop="C13", file=PCT13, expect="R13.5",
         old="    return float(\n        np.nanpercentile(\n            np.array(intermediate_values, dtype=float),\n            percentile,\n        )\n    )\n",
         new="    values = np.array(intermediate_values, dtype=float)\n    values[np.isposinf(values)] = np.nan\n    return float(np.nanpercentile(values, percentile))\n"),
    dict(id="c13-neutral-percentile-local-array", prop="C13", file=PCT13, expect=None,
         old="    return float(\n        np.nanpercentile(\n            np.array(intermediate_values, dtype=float),\n            percentile,\n        )\n    )\n",
         new="    values = np.array(intermediate_values, dtype=float)\n    return float(np.nanpercentile(values, percentile))\n"),
]
