"""C16 self-validation variants."""
PC = "optuna/pruners/_percentile.py"
TH = "optuna/pruners/_threshold.py"
PA = "optuna/pruners/_patient.py"
SH = "optuna/pruners/_successive_halving.py"
HY = "optuna/pruners/_hyperband.py"
WI = "optuna/pruners/_wilcoxon.py"
NO = "optuna/pruners/_nop.py"
ME = "optuna/pruners/_median.py"

VARIANTS = [
    dict(id="c16-pct-no-startup", prop="C16", file=PC, expect="R16.2",
         old="        if n_trials < self._n_startup_trials:\n            return False\n\n", new=""),
    dict(id="c16-pct-no-warmup", prop="C16", file=PC, expect="R16.2",
         old="        n_warmup_steps = self._n_warmup_steps\n        if step < n_warmup_steps:\n            return False\n\n        if not _is_first_in_interval_step(\n            step, trial.intermediate_values.keys(), n_warmup_steps, self._interval_steps\n        ):\n            return False\n\n        direction = study.direction",
         new="        n_warmup_steps = 0\n        if not _is_first_in_interval_step(\n            step, trial.intermediate_values.keys(), n_warmup_steps, self._interval_steps\n        ):\n            return False\n\n        direction = study.direction"),
    dict(id="c16-pct-no-interval", prop="C16", file=PC, expect="R16.2",
         old="        if not _is_first_in_interval_step(\n            step, trial.intermediate_values.keys(), n_warmup_steps, self._interval_steps\n        ):\n            return False\n\n        direction = study.direction", new="        direction = study.direction"),
    dict(id="c16-pct-nan-before-warmup", prop="C16", file=PC, expect="R16.2",
         old="        n_warmup_steps = self._n_warmup_steps\n        if step < n_warmup_steps:\n            return False\n",
         new="        if math.isnan(trial.intermediate_values[step]):\n            return True\n        n_warmup_steps = self._n_warmup_steps\n        if step < n_warmup_steps:\n            return False\n"),
    dict(id="c16-pct-startup-flipped", prop="C16", file=PC, expect="R16.2",
         old="        if n_trials < self._n_startup_trials:", new="        if n_trials > self._n_startup_trials:"),
    dict(id="c16-pct-interval-inverted", prop="C16", file=PC, expect="R16.2",
         old="        if not _is_first_in_interval_step(\n            step, trial.intermediate_values.keys(), n_warmup_steps, self._interval_steps\n        ):\n            return False\n\n        direction = study.direction",
         new="        if _is_first_in_interval_step(\n            step, trial.intermediate_values.keys(), n_warmup_steps, self._interval_steps\n        ):\n            return False\n\n        direction = study.direction"),
    dict(id="c16-th-no-warmup", prop="C16", file=TH, expect="R16.2",
         old="        n_warmup_steps = self._n_warmup_steps\n        if step < n_warmup_steps:\n            return False\n\n        if not _is_first", new="        n_warmup_steps = 0\n        if not _is_first"),
    dict(id="c16-th-nan-early", prop="C16", file=TH, expect="R16.2",
         old="        n_warmup_steps = self._n_warmup_steps\n        if step < n_warmup_steps:\n            return False\n\n        if not _is_first",
         new="        n_warmup_steps = self._n_warmup_steps\n        if math.isnan(trial.intermediate_values[step]):\n            return True\n        if step < n_warmup_steps:\n            return False\n\n        if not _is_first"),
    dict(id="c16-th-ge-upper", prop="C16", file=TH, expect="R16.3",
         old="        if latest_value > self._upper:", new="        if latest_value >= self._upper:"),
    dict(id="c16-th-no-nan", prop="C16", file=TH, expect="R16.3",
         old="        if math.isnan(latest_value):\n            return True\n\n        if latest_value < self._lower:", new="        if latest_value < self._lower:"),
    dict(id="c16-th-bounds-swapped", prop="C16", file=TH, expect="R16.3",
         old="        self._lower = lower\n        self._upper = upper\n", new="        self._lower = upper\n        self._upper = lower\n"),
    dict(id="c16-patient-off-by-one", prop="C16", file=PA, expect="R16.2",
         old="        if steps.size <= self._patience + 1:\n            return False\n", new="        if steps.size <= 1:\n            return False\n"),
    dict(id="c16-patient-flipped", prop="C16", file=PA, expect="R16.2",
         old="        if steps.size <= self._patience + 1:", new="        if steps.size >= self._patience + 1:"),
    dict(id="c16-sh-no-rung-gate", prop="C16", file=SH, expect="R16.2",
         old="            if step < rung_promotion_step:\n                return False\n\n", new=""),
    dict(id="c16-sh-nan-before-gate", prop="C16", file=SH, expect="R16.2",
         old="            if step < rung_promotion_step:\n                return False\n\n            if math.isnan(value):\n                return True\n",
         new="            if math.isnan(value):\n                return True\n\n            if step < rung_promotion_step:\n                return False\n"),
    dict(id="c16-sh-ignores-min-resource", prop="C16", file=SH, expect="R16.2",
         old="            rung_promotion_step = self._min_resource * (\n                self._reduction_factor ** (self._min_early_stopping_rate + rung)\n            )",
         new="            rung_promotion_step = self._reduction_factor ** (self._min_early_stopping_rate + rung)"),
    dict(id="c16-wilcoxon-no-startup", prop="C16", file=WI, expect="R16.2",
         old="        if len(diff_values) < max(2, self._n_startup_steps):\n            return False\n", new="        if len(diff_values) < 2:\n            return False\n"),
    dict(id="c16-nop-prunes-nan", prop="C16", file=NO, expect="R16.3",
         old="        return False\n", new="        return trial.last_step is not None and trial.intermediate_values[trial.last_step] != trial.intermediate_values[trial.last_step]\n"),
    dict(id="c16-median-swaps-args", prop="C16", file=ME, expect="R16.1",
         old="            50.0, n_startup_trials, n_warmup_steps, interval_steps, n_min_trials=n_min_trials",
         new="            50.0, n_warmup_steps, n_startup_trials, interval_steps, n_min_trials=n_min_trials"),
    dict(id="c16-hb-bracket-by-value", prop="C16", file=HY, expect="R16.4",
         old="            binascii.crc32(\"{}_{}\".format(study.study_name, trial.number).encode())",
         new="            binascii.crc32(\"{}_{}\".format(study.study_name, trial.last_step).encode())"),
    dict(id="c16-hb-bracket-by-id", prop="C16", file=HY, expect="R16.4",
         old="            binascii.crc32(\"{}_{}\".format(study.study_name, trial.number).encode())",
         new="            binascii.crc32(\"{}_{}\".format(study.study_name, trial._trial_id).encode())"),
    dict(id="c16-hb-wrong-min-resource", prop="C16", file=HY, expect="R16.4",
         old="                min_resource=self._min_resource,\n                reduction_factor=self._reduction_factor,\n                min_early_stopping_rate=bracket_id,",
         new="                min_resource=1,\n                reduction_factor=self._reduction_factor,\n                min_early_stopping_rate=bracket_id,"),
    dict(id="c16-hb-no-uninit-guard", prop="C16", file=HY, expect="R16.4",
         old="            self._try_initialization(study)\n            if len(self._pruners) == 0:\n                return False\n", new="            self._try_initialization(study)\n"),
    dict(id="c16-hb-filter-dropped", prop="C16", file=HY, expect="R16.4",
         old="                return [t for t in trials if pruner._get_bracket_id(self, t) == self._bracket_id]", new="                return list(trials)"),
    # neutral
    dict(id="c16-neutral-ge-form", prop="C16", file=PC, expect=None,
         old="        if n_trials < self._n_startup_trials:\n            return False\n", new="        if not n_trials >= self._n_startup_trials:\n            return False\n"),
    dict(id="c16-neutral-mirrored", prop="C16", file=TH, expect=None,
         old="        if step < n_warmup_steps:\n            return False\n", new="        if n_warmup_steps > step:\n            return False\n"),
]

PCT = "optuna/pruners/_percentile.py"
VARIANTS += [
    dict(id="c16-startup-counts-finished-trials", prop="C16", file=PCT, expect="R16.2",
         old="        n_trials = len(completed_trials)\n\n        if n_trials == 0:\n            return False\n",
         new="        if len(completed_trials) == 0:\n            return False\n        n_trials = sum(t.state.is_finished() for t in study.get_trials(deepcopy=False))\n"),
    dict(id="c16-startup-counts-pruned-too", prop="C16", file=PCT, expect="R16.2",
         old="        completed_trials = study.get_trials(deepcopy=False, states=(TrialState.COMPLETE,))\n        n_trials = len(completed_trials)\n",
         new="        completed_trials = study.get_trials(deepcopy=False, states=(TrialState.COMPLETE,))\n        n_trials = len(study.get_trials(deepcopy=False, states=(TrialState.COMPLETE, TrialState.PRUNED)))\n"),
    dict(id="c16-warmup-measured-on-report-count", prop="C16", file=PCT, expect="R16.2",
         old="        if step < n_warmup_steps:\n            return False\n",
         new="        if len(trial.intermediate_values) < n_warmup_steps:\n            return False\n"),
    dict(id="c16-neutral-startup-count-by-comprehension", prop="C16", file=PCT, expect=None,
         old="        completed_trials = study.get_trials(deepcopy=False, states=(TrialState.COMPLETE,))\n        n_trials = len(completed_trials)\n",
         new="        all_trials = study.get_trials(deepcopy=False)\n        completed_trials = [t for t in all_trials if t.state == TrialState.COMPLETE]\n        n_trials = len(completed_trials)\n"),
]

PAT16 = "optuna/pruners/_patient.py"
SH16 = "optuna/pruners/_successive_halving.py"
VARIANTS += [
    dict(id="c16-patience-window-by-step-number", prop="C16", file=PAT16, expect="R16.2",
         edits=[dict(file=PAT16, old="        steps_before_patience = steps[: -self._patience - 1]\n", new="        window_start = int(np.searchsorted(steps, step - self._patience))\n        steps_before_patience = steps[:window_start]\n"),
                dict(file=PAT16, old="        steps_after_patience = steps[-self._patience - 1 :]\n", new="        steps_after_patience = steps[window_start:]\n")]),
    dict(id="c16-sha-remembers-direction", prop="C16", file=SH16, expect="R16.2",
         old="            if not _is_trial_promotable_to_next_rung(\n",
         new="            self._direction = study.direction\n            if not _is_trial_promotable_to_next_rung(\n"),
    dict(id="c16-neutral-patience-window-parenthesised", prop="C16", file=PAT16, expect=None,
         edits=[dict(file=PAT16, old="        steps_before_patience = steps[: -self._patience - 1]\n", new="        steps_before_patience = steps[: -(self._patience + 1)]\n"),
                dict(file=PAT16, old="        steps_after_patience = steps[-self._patience - 1 :]\n", new="        steps_after_patience = steps[-(self._patience + 1) :]\n")]),
]

VARIANTS += [
    dict(id="c16-threshold-upper-by-truthiness", prop="C16", file="optuna/pruners/_threshold.py", expect="R16.3",
         old="        if upper is not None:\n            upper = _check_value(upper)\n", new="        if upper:\n            upper = _check_value(upper)\n"),
    dict(id="c16-patient-window-unsorted", prop="C16", file="optuna/pruners/_patient.py", expect="R16.2",
         old="        steps.sort()\n", new=""),
    dict(id="c16-sha-nan-recorded", prop="C16", file="optuna/pruners/_successive_halving.py", expect="R16.5",
         old="            if math.isnan(value):\n                return True\n\n            if trials is None:\n                trials = study.get_trials(deepcopy=False)\n\n            rung_key = _completed_rung_key(rung)\n\n            study._storage.set_trial_system_attr(trial._trial_id, rung_key, value)\n",
         new="            if trials is None:\n                trials = study.get_trials(deepcopy=False)\n\n            rung_key = _completed_rung_key(rung)\n\n            study._storage.set_trial_system_attr(trial._trial_id, rung_key, value)\n\n            if math.isnan(value):\n                return True\n"),
]
