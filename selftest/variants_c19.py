"""C19 self-validation variants."""
HB = "optuna/storages/_heartbeat.py"
CB = "optuna/storages/_callbacks.py"
RDB = "optuna/storages/_rdb/storage.py"
CS = "optuna/storages/_cached_storage.py"
OP = "optuna/study/_optimize.py"
BASE = "optuna/storages/_base.py"

VARIANTS = [
    dict(id="c19-append-outside-if", prop="C19", file=HB, expect="R19.1",
         old="            if storage.set_trial_state_values(trial_id, state=TrialState.FAIL):\n                failed_trial_ids.append(trial_id)\n",
         new="            storage.set_trial_state_values(trial_id, state=TrialState.FAIL)\n            failed_trial_ids.append(trial_id)\n"),
    dict(id="c19-append-in-except-too", prop="C19", file=HB, expect="R19",
         old="            # optuna.exceptions.UpdateFinishedTrialError.\n            pass\n",
         new="            # optuna.exceptions.UpdateFinishedTrialError.\n            failed_trial_ids.append(trial_id)\n"),
    dict(id="c19-callback-for-all-stale", prop="C19", file=HB, expect="R19.1",
         old="    failed_trial_ids = []\n    for trial_id in storage._get_stale_trial_ids(study._study_id):",
         new="    failed_trial_ids = list(storage._get_stale_trial_ids(study._study_id))\n    for trial_id in storage._get_stale_trial_ids(study._study_id):"),
    dict(id="c19-no-except", prop="C19", file=HB, expect="R19.2",
         old="        try:\n            if storage.set_trial_state_values(trial_id, state=TrialState.FAIL):\n                failed_trial_ids.append(trial_id)\n        except optuna.exceptions.UpdateFinishedTrialError:\n            # If another process fails the trial, the storage raises\n            # optuna.exceptions.UpdateFinishedTrialError.\n            pass\n",
         new="        if storage.set_trial_state_values(trial_id, state=TrialState.FAIL):\n            failed_trial_ids.append(trial_id)\n"),
    dict(id="c19-callback-shared-object", prop="C19", file=HB, expect="R19.1",
         old="            failed_trial = copy.deepcopy(storage.get_trial(trial_id))\n", new="            failed_trial = storage.get_trial(trial_id)\n"),
    dict(id="c19-rdb-guard-before-lock", prop="C19", file=RDB, expect="R19.3",
         old="                trial = models.TrialModel.find_or_raise_by_id(trial_id, session, for_update=True)\n                self.check_trial_is_updatable(trial_id, trial.state)\n",
         new="                self.check_trial_is_updatable(trial_id, models.TrialModel.find_or_raise_by_id(trial_id, session).state)\n                trial = models.TrialModel.find_or_raise_by_id(trial_id, session, for_update=True)\n"),
    dict(id="c19-guard-only-complete", prop="C19", file=BASE, expect="R19.3",
         old="        if trial_state.is_finished():", new="        if trial_state == TrialState.COMPLETE:"),
    dict(id="c19-cached-shortcut", prop="C19", file=CS, expect="R19.3",
         old="        return self._backend.set_trial_state_values(trial_id, state=state, values=values)\n",
         new="        with self._lock:\n            cached = self._get_cached_trial(trial_id)\n        if cached is not None and state == TrialState.FAIL:\n            return False\n        return self._backend.set_trial_state_values(trial_id, state=state, values=values)\n"),
    dict(id="c19-stale-no-heartbeat-check", prop="C19", file=RDB, expect="R19.4",
         old="                if len(trial.heartbeats) == 0:\n                    continue\n                assert len(trial.heartbeats) == 1\n                heartbeat = trial.heartbeats[0].heartbeat\n",
         new="                if len(trial.heartbeats) == 0:\n                    stale_trial_ids.append(trial.trial_id)\n                    continue\n                assert len(trial.heartbeats) == 1\n                heartbeat = trial.heartbeats[0].heartbeat\n"),
    dict(id="c19-stale-ge", prop="C19", file=RDB, expect="R19.4",
         old="                if current_heartbeat - heartbeat > timedelta(seconds=grace_period):", new="                if current_heartbeat - heartbeat >= timedelta(seconds=grace_period):"),
    dict(id="c19-stale-all-states", prop="C19", file=RDB, expect="R19.4",
         old="                .filter(models.TrialModel.state == TrialState.RUNNING)\n                .filter(models.TrialModel.study_id == study_id)\n",
         new="                .filter(models.TrialModel.study_id == study_id)\n"),
    dict(id="c19-stale-all-studies", prop="C19", file=RDB, expect="R19.4",
         old="                .filter(models.TrialModel.state == TrialState.RUNNING)\n                .filter(models.TrialModel.study_id == study_id)\n",
         new="                .filter(models.TrialModel.state == TrialState.RUNNING)\n"),
    dict(id="c19-grace-default-1x", prop="C19", file=RDB, expect="R19.4",
         old="            grace_period = 2 * self.heartbeat_interval\n", new="            grace_period = self.heartbeat_interval\n"),
    dict(id="c19-retry-test-before-append", prop="C19", file=CB, expect="R19.5",
         old="        system_attrs[\"retry_history\"].append(trial.number)\n        if self._max_retry is not None:\n            if self._max_retry < len(system_attrs[\"retry_history\"]):\n                return\n",
         new="        if self._max_retry is not None:\n            if self._max_retry < len(system_attrs[\"retry_history\"]):\n                return\n        system_attrs[\"retry_history\"].append(trial.number)\n"),
    dict(id="c19-retry-le", prop="C19", file=CB, expect="R19.5",
         old="            if self._max_retry < len(system_attrs[\"retry_history\"]):", new="            if self._max_retry + 1 < len(system_attrs[\"retry_history\"]):"),
    dict(id="c19-retry-spread-first", prop="C19", file=CB, expect="R19.5",
         old="            \"failed_trial\": trial.number,\n            \"retry_history\": [],\n            **trial.system_attrs,\n",
         new="            **trial.system_attrs,\n            \"failed_trial\": trial.number,\n            \"retry_history\": [],\n"),
    dict(id="c19-retry-drops-user-attrs", prop="C19", file=CB, expect="R19.5",
         old="                user_attrs=trial.user_attrs,\n", new=""),
    dict(id="c19-retry-running", prop="C19", file=CB, expect="R19.5",
         old="                state=optuna.trial.TrialState.WAITING,\n                params=trial.params,", new="                state=optuna.trial.TrialState.RUNNING,\n                params=trial.params,"),
    dict(id="c19-sweep-after-ask", prop="C19", file=OP, expect="R19.6",
         old="    if is_heartbeat_enabled(study._storage):\n        optuna.storages.fail_stale_trials(study)\n\n    trial = study.ask()\n",
         new="    trial = study.ask()\n    if is_heartbeat_enabled(study._storage):\n        optuna.storages.fail_stale_trials(study)\n\n"),
    # neutral
    dict(id="c19-neutral-walrus-free-form", prop="C19", file=HB, expect=None,
         old="            if storage.set_trial_state_values(trial_id, state=TrialState.FAIL):\n                failed_trial_ids.append(trial_id)\n",
         new="            if not storage.set_trial_state_values(trial_id, state=TrialState.FAIL):\n                continue\n            failed_trial_ids.append(trial_id)\n"),
    dict(id="c19-neutral-le-form", prop="C19", file=RDB, expect=None,
         old="                if current_heartbeat - heartbeat > timedelta(seconds=grace_period):\n                    stale_trial_ids.append(trial.trial_id)\n",
         new="                if current_heartbeat - heartbeat <= timedelta(seconds=grace_period):\n                    continue\n                stale_trial_ids.append(trial.trial_id)\n"),
]

HB19 = "optuna/storages/_heartbeat.py"
VARIANTS += [
    dict(id="c19-lost-race-ends-the-sweep", prop="C19", file=HB19, expect="R19.2",
         old="    for trial_id in storage._get_stale_trial_ids(study._study_id):\n        try:\n            if storage.set_trial_state_values(trial_id, state=TrialState.FAIL):\n                failed_trial_ids.append(trial_id)\n        except optuna.exceptions.UpdateFinishedTrialError:\n",
         new="    try:\n        for trial_id in storage._get_stale_trial_ids(study._study_id):\n            if storage.set_trial_state_values(trial_id, state=TrialState.FAIL):\n                failed_trial_ids.append(trial_id)\n    except optuna.exceptions.UpdateFinishedTrialError:\n        if True:\n"),
]

VARIANTS += [
    dict(id="c19-heartbeat-from-worker-clock", prop="C19", file=RDB, expect="R19.7",
         old="                heartbeat.heartbeat = session.execute(sqlalchemy.func.now()).scalar()\n",
         new="                heartbeat.heartbeat = datetime.now()\n"),
    dict(id="c19-stale-now-from-worker-clock", prop="C19", file=RDB, expect="R19.7",
         old="            current_heartbeat = session.execute(sqlalchemy.func.now()).scalar()\n            assert current_heartbeat is not None\n",
         new="            current_heartbeat = datetime.utcnow()\n            assert current_heartbeat is not None\n"),
    dict(id="c19-first-beat-explicit-local-time", prop="C19", file=RDB, expect="R19.7",
         old="                heartbeat = models.TrialHeartbeatModel(trial_id=trial_id)\n",
         new="                heartbeat = models.TrialHeartbeatModel(trial_id=trial_id, heartbeat=datetime.now())\n"),
]
