"""C20 self-validation variants."""
IM = "optuna/storages/_in_memory.py"
JS = "optuna/storages/journal/_storage.py"
CS = "optuna/storages/_cached_storage.py"
GC = "optuna/storages/_grpc/client.py"
ST = "optuna/study/study.py"
TR = "optuna/trial/_trial.py"
TELL = "optuna/study/_tell.py"
HB = "optuna/storages/_heartbeat.py"

VARIANTS = [
    dict(id="c20-f2-shape-reintroduced", prop="C20", file=TR, expect="R20.4",
         old="self._cached_frozen_trial = copy.deepcopy(self.storage.get_trial(self._trial_id))",
         new="self._cached_frozen_trial = self.storage.get_trial(self._trial_id)"),
    dict(id="c20-f2-shallow-copy-only", prop="C20", file=TR, expect="R20.4",
         old="self._cached_frozen_trial = copy.deepcopy(self.storage.get_trial(self._trial_id))",
         new="self._cached_frozen_trial = copy.copy(self.storage.get_trial(self._trial_id))"),
    dict(id="c20-inmem-drop-copy-user_attr", prop="C20", file=IM, expect="R20.1",
         old="            trial = copy.copy(trial)\n            trial.user_attrs = copy.copy(trial.user_attrs)\n",
         new=""),
    dict(id="c20-inmem-drop-field-copy", prop="C20", file=IM, expect="R20.1",
         old="            trial.intermediate_values = copy.copy(trial.intermediate_values)\n", new=""),
    dict(id="c20-inmem-state-in-place", prop="C20", file=IM, expect="R20.1",
         old="            trial = copy.copy(self._get_trial(trial_id))\n            self.check_trial_is_updatable(trial_id, trial.state)",
         new="            trial = self._get_trial(trial_id)\n            self.check_trial_is_updatable(trial_id, trial.state)"),
    dict(id="c20-inmem-mutate-after-publish", prop="C20", file=IM, expect="R20.1",
         old="                trial.datetime_complete = datetime.now()\n                self._set_trial(trial_id, trial)\n",
         new="                self._set_trial(trial_id, trial)\n                trial.datetime_complete = datetime.now()\n"),
    dict(id="c20-inmem-return-internal-list", prop="C20", file=IM, expect="R20.3",
         old="                # This copy is required for the replacing trick in `set_trial_xxx`.\n                trials = copy.copy(trials)\n",
         new="                pass\n"),
    dict(id="c20-inmem-ignore-deepcopy", prop="C20", file=IM, expect="R20.2",
         old="            if deepcopy:\n                trials = copy.deepcopy(trials)\n            else:",
         new="            if deepcopy and states is not None:\n                trials = copy.deepcopy(trials)\n            else:"),
    dict(id="c20-journal-in-place-attr", prop="C20", file=JS, expect="R20.1",
         old="            trial = copy.copy(self._trials[trial_id])\n            trial.user_attrs = {**copy.copy(trial.user_attrs), **log[\"user_attr\"]}\n            self._trials[trial_id] = trial\n",
         new="            self._trials[trial_id].user_attrs.update(log[\"user_attr\"])\n"),
    dict(id="c20-journal-state-no-copy", prop="C20", file=JS, expect="R20.1",
         old="        trial = copy.copy(self._trials[trial_id])\n        if state == TrialState.RUNNING:",
         new="        trial = self._trials[trial_id]\n        if state == TrialState.RUNNING:"),
    dict(id="c20-journal-no-deepcopy", prop="C20", file=JS, expect="R20.2",
         old="            if deepcopy:\n                return copy.deepcopy(frozen_trials)\n            return frozen_trials",
         new="            return frozen_trials"),
    dict(id="c20-journal-replay-returns-owned-list", prop="C20", file=JS, expect="R20.3",
         old="        frozen_trials: list[FrozenTrial] = []\n        for trial_id in self._study_id_to_trial_ids[study_id]:\n            trial = self._trials[trial_id]\n            if states is None or trial.state in states:\n                frozen_trials.append(trial)\n        return frozen_trials\n",
         new="        if states is None:\n            return self._trials\n        return [t for t in self._trials.values() if t.state in states]\n"),
    dict(id="c20-cached-mutates-cached-trial", prop="C20", file=CS, expect="R20.6",
         old="            study.trials[trial.number] = trial\n",
         new="            if trial.number in study.trials:\n                study.trials[trial.number].state = trial.state\n            else:\n                study.trials[trial.number] = trial\n"),
    dict(id="c20-cached-no-deepcopy", prop="C20", file=CS, expect="R20.2",
         old="            return copy.deepcopy(trials) if deepcopy else trials\n", new="            return trials\n"),
    dict(id="c20-grpc-no-deepcopy", prop="C20", file=GC, expect="R20.2",
         old="        return copy.deepcopy(trials) if deepcopy else trials\n", new="        return trials if deepcopy else trials\n"),
    dict(id="c20-grpc-cache-returns-map-values", prop="C20", file=GC, expect="R20.6",
         old="        study.trials[trial.number] = trial\n\n        if not trial.state.is_finished():",
         new="        old = study.trials.get(trial.number)\n        if old is not None:\n            old.values = trial.values\n        study.trials[trial.number] = trial\n\n        if not trial.state.is_finished():"),
    dict(id="c20-study-best_trial-no-copy", prop="C20", file=ST, expect="R20.2",
         old="        return copy.deepcopy(best_trial)\n", new="        return best_trial\n"),
    dict(id="c20-study-user_attrs-no-copy", prop="C20", file=ST, expect="R20.2",
         old="        return copy.deepcopy(self._storage.get_study_user_attrs(self._study_id))\n",
         new="        return self._storage.get_study_user_attrs(self._study_id)\n"),
    dict(id="c20-study-trials-nocopy", prop="C20", file=ST, expect="R20.2",
         old="        return self.get_trials(deepcopy=True, states=None)\n", new="        return self.get_trials(deepcopy=False, states=None)\n"),
    dict(id="c20-study-cache-ignores-deepcopy", prop="C20", file=ST, expect="R20.2",
         old="            return copy.deepcopy(filtered_trials) if deepcopy else filtered_trials\n",
         new="            return filtered_trials\n"),
    dict(id="c20-tell-returns-shared", prop="C20", file=TELL, expect="R20",
         old="    frozen_trial = copy.deepcopy(study._storage.get_trial(frozen_trial._trial_id))\n",
         new="    frozen_trial = study._storage.get_trial(frozen_trial._trial_id)\n"),
    dict(id="c20-heartbeat-callback-shared", prop="C20", file=HB, expect="R20.2",
         old="            failed_trial = copy.deepcopy(storage.get_trial(trial_id))\n",
         new="            failed_trial = storage.get_trial(trial_id)\n"),
    dict(id="c20-ask-no-cache-reset", prop="C20", file=ST, expect="R20.5",
         old="        # Sync storage once every trial.\n        self._thread_local.cached_all_trials = None\n", new=""),
    # neutral
    dict(id="c20-neutral-dict-display", prop="C20", file=IM, expect=None,
         old="            trial.user_attrs = copy.copy(trial.user_attrs)\n            trial.user_attrs[key] = value\n",
         new="            trial.user_attrs = {**trial.user_attrs, key: value}\n"),
    dict(id="c20-neutral-deepcopy-instead", prop="C20", file=IM, expect=None,
         old="            trial = copy.copy(trial)\n            trial.intermediate_values = copy.copy(trial.intermediate_values)\n",
         new="            trial = copy.deepcopy(trial)\n"),
    dict(id="c20-neutral-rename", prop="C20", file=JS, expect=None, count=3,
         old="frozen_trials: list[FrozenTrial] = []\n        for trial_id in self._study_id_to_trial_ids[study_id]:\n            trial = self._trials[trial_id]\n            if states is None or trial.state in states:\n                frozen_trials.append(trial)\n        return frozen_trials",
         new="result: list[FrozenTrial] = []\n        for trial_id in self._study_id_to_trial_ids[study_id]:\n            trial = self._trials[trial_id]\n            if states is None or trial.state in states:\n                result.append(trial)\n        return result").__class__(id="c20-neutral-rename", prop="C20", file=JS, expect=None,
         old="        frozen_trials: list[FrozenTrial] = []\n        for trial_id in self._study_id_to_trial_ids[study_id]:\n            trial = self._trials[trial_id]\n            if states is None or trial.state in states:\n                frozen_trials.append(trial)\n        return frozen_trials",
         new="        result: list[FrozenTrial] = []\n        for trial_id in self._study_id_to_trial_ids[study_id]:\n            trial = self._trials[trial_id]\n            if states is None or trial.state in states:\n                result.append(trial)\n        return result"),
]

VARIANTS += [
    dict(id="c20-inmem-study-attrs-aliased", prop="C20", file=IM, expect="R20.7",
         old="            user_attrs=copy.deepcopy(study.user_attrs),\n", new="            user_attrs=study.user_attrs,\n"),
    dict(id="c20-journal-studies-not-copied", prop="C20", file=JS, expect="R20.7",
         old="            return copy.deepcopy(self._replay_result.get_all_studies())\n", new="            return self._replay_result.get_all_studies()\n"),
]

IM20 = "optuna/storages/_in_memory.py"
JS20 = "optuna/storages/journal/_storage.py"
VARIANTS += [
    # F12 shape: study attribute dict handed out by reference and updated in place
    dict(id="c20-f12-shape-inmem-study-attr-in-place", prop="C20", file=IM20, expect="R20.8",
         old="            study = self._studies[study_id]\n            study.user_attrs = {**study.user_attrs, key: value}\n",
         new="            self._studies[study_id].user_attrs[key] = value\n"),
    dict(id="c20-f12-shape-journal-study-attr-in-place", prop="C20", file=JS20, expect="R20.8",
         old="            study = self._studies[study_id]\n            study.system_attrs = {**study.system_attrs, **log[\"system_attr\"]}\n",
         new="            self._studies[study_id].system_attrs.update(log[\"system_attr\"])\n"),
    dict(id="c20-neutral-study-attr-getter-copies", prop="C20", file=IM20, expect=None,
         old="            study = self._studies[study_id]\n            study.user_attrs = {**study.user_attrs, key: value}\n",
         new="            study = self._studies[study_id]\n            new_attrs = dict(study.user_attrs)\n            new_attrs[key] = value\n            study.user_attrs = new_attrs\n"),
]

ST20 = "optuna/study/study.py"
VARIANTS += [
    dict(id="c20-best-trial-copied-before-fallback", prop="C20", file=ST20, expect="R20.2",
         edits=[dict(file=ST20, old="        best_trial = self._storage.get_best_trial(self._study_id)\n", new="        best_trial = copy.deepcopy(self._storage.get_best_trial(self._study_id))\n"),
                dict(file=ST20, old="        return copy.deepcopy(best_trial)\n", new="        return best_trial\n")]),
]

VARIANTS += [
    dict(id="c20-deepcopy-with-seeded-memo", prop="C20", file=IM, expect="R20.2",
         old="            if deepcopy:\n                trials = copy.deepcopy(trials)\n",
         new="            if deepcopy:\n                trials = copy.deepcopy(trials, {id(t.distributions): t.distributions for t in trials})\n"),
    dict(id="c20-neutral-deepcopy-empty-memo", prop="C20", file=IM, expect=None,
         old="            if deepcopy:\n                trials = copy.deepcopy(trials)\n",
         new="            if deepcopy:\n                trials = copy.deepcopy(trials, {})\n"),
    dict(id="c20-rdb-template-shallow-copy", prop="C20", file="optuna/storages/_rdb/storage.py", expect="R20.1",
         old="                frozen = copy.deepcopy(template_trial)\n", new="                frozen = copy.copy(template_trial)\n"),
]

VARIANTS += [
    dict(id="c20-metric-names-uncopied", prop="C20", file=ST, expect="R20.2",
         old="        return copy.deepcopy(\n            self._storage.get_study_system_attrs(self._study_id).get(_SYSTEM_ATTR_METRIC_NAMES)\n        )\n",
         new="        return self._storage.get_study_system_attrs(self._study_id).get(_SYSTEM_ATTR_METRIC_NAMES)\n"),
]

VARIANTS += [
    dict(id="c20-directions-uncopied", prop="C20", file=ST, expect="R20.2",
         old="        return list(self._directions)\n", new="        return self._directions\n"),
    dict(id="c20-neutral-directions-copy-copy", prop="C20", file=ST, expect=None,
         old="        return list(self._directions)\n", new="        return copy.copy(self._directions)\n"),
    dict(id="c20-bracket-study-drops-deepcopy", prop="C20", file="optuna/pruners/_hyperband.py", expect="R20.2",
         old="                trials = super()._get_trials(deepcopy=deepcopy, states=states)\n", new="                trials = super()._get_trials(deepcopy=False, states=states)\n"),
]
