#!/usr/bin/env python3
"""Generate sa/localnames.json: the reference local-variable naming of the tree the rules were confirmed on
(see sa/alpha.py). Run on the pinned tree only (after a fix commit that changes locals, regenerate)."""
import ast
import hashlib
import json
import os
import sys

VERIF = os.path.dirname(os.path.dirname(os.path.abspath(__file__)))
sys.path.insert(0, VERIF)
from sa import alpha  # noqa: E402

REPO = os.environ.get("VERIF_REPO", "/repo")
out = {}
for root, _d, files in os.walk(os.path.join(REPO, "optuna")):
    for fn in sorted(files):
        if fn.endswith(".py"):
            path = os.path.join(root, fn)
            rel = os.path.relpath(path, REPO)
            try:
                src = open(path, encoding="utf-8").read()
                tree = ast.parse(src)
            except SyntaxError:
                continue
            t = alpha.table_for(tree)
            pf = alpha.private_function_table(tree)
            t["__funcs__"] = pf  # also when empty: "this module has no private function" is a fact the un-move passes need
            if t:
                # a module whose source is byte-identical to the reference needs no renaming at all
                t["__digest__"] = hashlib.sha256(src.encode()).hexdigest()[:16]
                out[rel] = t
json.dump(out, open(os.path.join(VERIF, "sa", "localnames.json"), "w"), indent=0, sort_keys=True)
print(len(out), "modules,", sum(len([k for k in v if not k.startswith("__")]) for v in out.values()), "functions,", sum(len(x) for v in out.values() for k, x in v.items() if not k.startswith("__")), "locals")
