#!/usr/bin/env python3
"""Regenerate /verif/MANIFEST.json from the table below (kept in one place so that the manifest
is always schema-valid and in sync with the rule modules that exist)."""
import json
import os

VERIF = os.path.dirname(os.path.dirname(os.path.abspath(__file__)))

CLAIMED = {
    # id: (technique, level text, level note, design ref)
    "C03": ("lock-held-set and guarded-field census over the AST; CFG dominance for row locks",
            "Every access to mutable shared storage state is inside its lock (lexically or in a helper all of whose call sites hold it); journal append+replay+read are one region; RDB session use is inside one transaction region and the three compare-and-set sites take a row lock first; non-reentrant locks are not re-acquired. Exhaustive over all methods of the storage classes. Every public method touches shared state in one critical section; journal mutators decide on replay, never on a pre-check before the append; uniqueness the contract promises is a schema constraint. Decides the locking discipline - a necessary condition of linearizability that no test can see - not linearizability itself.",
            "Trusts threading locks, SQLAlchemy with_for_update and the AST-based receiver resolution (self.<field> only, one alias level).",
            "DESIGN.md §3 C03"),
    "C05": ("ordered must-pass-through (reachability on a CFG with exceptional edges and duplicated finally suites); who-may-open census with positive fixture",
            "Journal append is one write->flush->fsync in order before the lock region is left, the file is only opened ab/rb, every journal mutator acknowledges only after the append, the cache layer is write-through, the RDB scoped session commits only on the normal continuation, rolls back first in every except arm, closes on all exits, and each RDB mutator writes in one transaction region. Exhaustive over all paths of the anchored functions. Decides ordering (a necessary condition of crash safety); does not decide behaviour on torn records or stale-lock take-over.",
            "Trusts os.fsync, SQLAlchemy commit/rollback atomicity; exception edges: every call may raise.",
            "DESIGN.md §3 C05"),
    "C07": ("held-region census, CFG dominance over branch edges (per loop iteration), exclusive-create constant folding, sibling fact tables",
            "Every journal write is under the inter-process file lock, acquire() can report success only after os.symlink / os.open(O_CREAT|O_EXCL) succeeded, release renames to a unique name then unlinks and is reached on all exits, the reader accepts a line only under the newline / size-snapshot / no-pending-error guards, and offset-cache entries are derived and dropped consistently. Exhaustive over paths of _file.py. A waiter removes a stale lock only after it watched the same lock unchanged for a full grace period on its own monotonic clock (restart on mtime change, stat every iteration); a cached offset always belongs to a line seen complete. Known finding (both lock classes): the stale lock is removed by path, so a second waiter can delete the first waiter's fresh lock. Decides these necessary clauses, not file-system atomicity or take-over races.",
            "Trusts EEXIST semantics of symlink/O_EXCL and atomic rename.",
            "DESIGN.md §3 C07"),
    "C20": ("freshness typestate as a forward dataflow on the CFG (SHARED/SHALLOW/CLEAN per local and attribute path, publish transitions), function specialisation for deepcopy=True/False with callee summaries",
            "Storages replace trial objects instead of mutating them, get_all_trials honours deepcopy=True and returns a fresh list for deepcopy=False in all five backends, Study getters return deep copies, and no client code mutates a reference obtained from a storage getter without a deep copy (locals flow-sensitively, self fields class-wide). Exhaustive over every mutation site of the scoped packages. Study attribute dicts handed out by reference are replaced on write, never mutated in place. Decides absence of in-place mutation of reader-visible objects; not user code mutating deepcopy=False results.",
            "Trusts copy.copy/deepcopy semantics; unknown call results are treated as private; storage receivers recognised by name (storage/_storage/_backend).",
            "DESIGN.md §3 C20"),
    "C08": ("value provenance through loops, helper parameters and call sites; per-branch must-pass-through on the CFG; comparison-shape sibling table; who-may-write census",
            "The watermark is only ever advanced to max(old, id of a trial returned by the incremental fetch issued with the entry's current watermark and unfinished set); both outcomes of is_finished() are handled; only finished trials are served from cache; get_all_trials syncs before serving and sorts by number; RDB SQL, RDB fallback and gRPC servicer filters use the same accepted comparison shapes; delete invalidates. Exhaustive over all writers of the watermark/unfinished set in both caches. A study the gRPC server reports as missing loses its client cache entry before the KeyError leaves. Decides preservation of the cache invariant by every writer, not inter-client staleness windows.",
            "Trusts that the backend fetch returns all trials matching the predicate; provenance depth 3.",
            "DESIGN.md §3 C08"),
    "C06": ("non-interference analysis: exclusive-region reachability at issuer tests on the CFG, boolean-helper outcome summaries, local taint from worker-local/ambient sources, per-iteration dominance, who-may-call/who-may-write censuses",
            "Replicated fields of the replay result are never written on only one side of an issuer test nor from worker-local/ambient values; explicit raises are issuer-only and happen before any replicated write; the cursor is advanced before dispatch and loop locals do not cross records; snapshots pickle exactly the replay result and restore resets every worker-local field; records are applied only from what was read back. Exhaustive over all ten handlers and helpers. A handler path that applies nothing passes an issuer test (silent drops are rejections); the Redis backend hands out a gap-free run of records starting at the requested number. Decides that replayed state is a function of the record sequence alone (who applies, batching, snapshot start); not that backends deliver the same sequence.",
            "Trusts dict insertion order and that decoding helpers are total on repo-written records; the worker-local field table is frozen in rules/c06.py.",
            "DESIGN.md §3 C06"),
    "C04": ("finite-domain exploration of the compare-and-set guard over TrialState x TrialState on each backend's CFG; branch-edge dominance for claim-result use and suggest priority; zero-count who-may-call rule with fixture",
            "WAITING->RUNNING is a compare-and-set in in-memory, RDB and journal (all 25 requested/stored state pairs explored per backend: the state write is unreachable for finished trials and for RUNNING requests on non-WAITING trials, losers get False), the only claimer branches on the result before the id escapes, nothing re-queues by writing WAITING, the in-memory WAITING cursor only moves to the first WAITING trial found, journal ownership is written only by the issuer on the successful transition, and _suggest gives fixed parameters priority and passes them verbatim. The in-memory guard and publication lie in one critical section; the journal worker id covers storage object, process (fork) and thread; a retry re-queues the failed trial with its system attrs (fixed_params) untouched. Known finding: on SQLite the RDB compare-and-set is not enforced (FOR UPDATE ignored, UPDATE without state condition). Decides presence of these mechanisms on all paths, not starvation freedom.",
            "Trial existence is assumed when its state is tested; helper models (check_trial_is_updatable raises iff finished) are themselves checked (R19.3).",
            "DESIGN.md §3 C04"),
    "C19": ("branch-edge dominance per loop iteration on the CFG (append only after truthy CAS), exception-edge routing to handler arms, finite-domain CAS exploration, keyword provenance",
            "fail_stale_trials runs the failure callback only for ids whose set_trial_state_values(id, FAIL) returned True, tolerates UpdateFinishedTrialError, hands over a deep copy; the CAS (row lock, finished guard, write) exists on every heartbeat-capable storage; the stale query only returns RUNNING trials of the study with a heartbeat strictly older than the grace period; the retry callback appends history before the max_retry test and rebuilds the trial unchanged; optimize sweeps before ask. Known finding: on SQLite two sweepers can both win the RUNNING->FAIL compare-and-set (same root cause as C04). Decides the at-most-once mechanism on all paths; not DB-clock behaviour or crashes between CAS and callback.",
            "Trusts SQL row locks and that finished trials raise UpdateFinishedTrialError (checked in R19.3 for the base guard).",
            "DESIGN.md §3 C19"),
    "C16": ("guard-dominance on the CFG (pass edge of a gate test dominates every non-False return), comparison-polarity normal form, backward-slice census for bracket purity",
            "For every protective constructor parameter of every built-in pruner (10 class/field pairs) every return of prune() that is not the constant False is dominated by the pass edge of a gate reading that parameter whose other edge returns False, with the comparison pointing the protecting way; NopPruner only returns False; ThresholdPruner prunes exactly under NaN/<lower/>upper; Hyperband returns False while uninitialised, delegates to SuccessiveHalving pruners built from its own parameters and its bracket id reads only study name, trial number and configuration. The start-up gate counts COMPLETE trials and the warm-up gate measures the trial's last step. Decides that gates cannot be bypassed on any path; not the numeric 'strictly better is never pruned' clause.",
            "Protective-parameter table confirmed by reading the pruner docs; _is_first_in_interval_step's arithmetic is not decided.",
            "DESIGN.md §3 C16"),
    "C12": ("sibling table of the five best-trial implementations; direction-duality matching; branch-edge dominance; finite-domain exploration (state=COMPLETE) for cache maintenance",
            "All five best-trial implementations restrict candidates to COMPLETE trials, select max / replace-when-larger / desc / find_max under MAXIMIZE with mirror-image MINIMIZE arms, the SQL siblings rank INF_NEG < FINITE < INF_POS over exactly the enum's members as primary key, the in-memory cache is updated after publication on every path on which a trial becomes COMPLETE, errors mirror the base class, the constraint fallback and the Pareto front filter COMPLETE/feasible trials. The in-memory cache update runs in the critical section that publishes the trial; best_trials applies the feasibility filter iff any trial of the study has recorded constraints. Decides agreement of eligibility, orientation and infinity ranking across backends; not the vectorised Pareto arithmetic or SQL NaN handling.",
            "Trusts SQLAlchemy case()/order_by semantics and Python max/min.",
            "DESIGN.md §3 C12"),
    "C13": ("census of all StudyDirection comparison sites with idiom classification; structural arm matching under the direction involution (sa/dual.py); module-closure coverage of consumers",
            "Every StudyDirection comparison in samplers, pruners, storages and study (24 sites, per-package floors) is a branch that fits one of the repository's idioms and is locally dual: two-armed sites and sibling callees match structurally with every order-sensitive token (comparison, min/max family, sort order, alternative, mirrored index, tolerance shift, sign) opposite between the arms; sign ternaries are negations and are multiplied in; one-armed sites are negations/mirrors; every order-sensitive pruner and value-reading sampler reaches a direction site. No second direction handling after normalisation; in pruners every value-vs-value order comparison, extremum selector and sign-of-infinity predicate sits inside a direction site; every function ordering raw trial values is direction-aware or tabled as direction-free (17 functions). Decides that no site compares the wrong way or forgets its mirror; not run-level equality (numerics) nor tie strictness.",
            "Sites outside the anchors (terminator, importance, visualization) are census-only; unknown idioms give exit 2.",
            "DESIGN.md §3 C13"),
    "C09": ("taint of storage ids by syntactic consumer (allowed sinks = id argument of storage methods), ambient-source census with tabled seeding idioms, rng-argument provenance through call sites, positive fixtures",
            "In samplers, pruners, search-space, GP and multi-objective code every read of _trial_id/_study_id (35 sites) only flows into the id argument of a storage method (one finding: BaseGASampler.get_parent_population, listed as known); no module-level/unseeded randomness or ambient source is called outside two tabled seeding idioms; every function with an unseeded RandomState fallback is called with an rng derived from self._rng.rng; every sampler builds its RandomState from the seed argument; copy_study forwards every component. Hash order: no iteration over set-typed locals, group sub-spaces only through sorted()/len()/membership; no selection from intermediate_values by dict position; no identity comparison of values. Decides these two confinement clauses (necessary for storage-independent reproducibility), not equality of whole runs.",
            "Ids are only reachable through the attributes _trial_id/_study_id; provenance depth 4; set-typed values are recognised syntactically (literals, set()/frozenset() calls, comprehensions).",
            "DESIGN.md §3 C09"),
    "C10": ("branch-edge dominance on Trial._suggest's CFG, single-definition value provenance (stored = returned = cached), path-condition agreement of log/exp sites, must-dataflow 'bounded' over the untransform, dispatch exhaustiveness",
            "A parameter already suggested is reused before any sampling branch; fixed -> single -> relative -> independent; the returned local is what is stored (via to_internal_repr) and cached, with the store dominating cache update and return; suggest_int wraps in int and the front-ends build the distribution from their arguments; relative values are used only if contained; math.log/math.exp are applied under identical predicates and every non-single untransform branch reachable with transform_log=True is clip/min-bounded; isinstance dispatches are exhaustive. Decides the suggest protocol; does NOT decide that each sampler's independent sample lies in [low, high] / on the grid (numerical).",
            "Trusts to_internal_repr validation; sampler numerics are out of scope.",
            "DESIGN.md §3 C10"),
    "C02": ("abstract interpretation over the CFG with typed exceptional edges: path-sensitive exploration of (node, structural value environment, stored flag, in-flight exception) with callee inlining and outcome summaries; sanitiser meaning proved by per-iteration dominance",
            "From the statement after `trial = study.ask()` every exit of _run_trial (return or any propagating exception) is preceded by <storage>.set_trial_state_values, under an explicit raise model (objective / after_trial / callbacks raise anything; float, int, math.isnan, len, arithmetic, comparison, subscript on values derived from the objective's return value raise their exception classes; trusted internals do not); the feasibility check is total and its None result means every element went through float(), the NaN test and the count test; for all 48 combinations of tell() arguments only (COMPLETE, validated floats), (FAIL, None), (PRUNED, None | validated float) reach the store and a normal return always follows a store; tell stores only for RUNNING trials; non-caught exceptions are re-raised after the store; loop accounting of _optimize_sequential and the n_jobs branch. Exhaustive over abstract states (~640). Study.ask fails a trial that already exists when the sampler hooks raise; with n_jobs > 1 the result of every submitted future is taken; callbacks run for every trial whose run returned normally. Decides the finalisation-path obligation; not numeric equality of stored floats or exotic Sequence subclasses.",
            "Raise model and total-by-assumption operations are listed in evidence; storage calls are assumed not to raise; a trial found not RUNNING after ask() is assumed already finished.",
            "DESIGN.md §3 C02"),
    "C01": ("sibling/interface tables over the five backends, guard dominance on CFGs, finite-domain CAS and timestamp exploration, must/may key-set dataflow for journal records, container-insert/remove census, docstring-vs-handler status-code tables, proto container taint with sanitisers",
            "Each backend carries the mechanisms the documented contract names, on every path, and writer/reader pairs agree: all 18 abstract methods with the base signature in 5 backends; the finished-trial guard dominates every trial write (15 writers) and wrappers delegate purely; WAITING->RUNNING compare-and-set (25 state pairs x 3 backends); every container a create path inserts into is cleaned on delete or its readers are gated, 10 SQL child models cascade; all 9 template fields are read by every writer and all constructor parameters rebuilt by every reader; 10 journal op-codes have one producer and one arm with agreeing must/may key sets; 19 RPCs map the documented exceptions to status codes and back; protobuf containers never reach backend arguments raw; trial-number allocation; timestamps per requested state; distribution JSON key agreement. RDB upserts write the same value columns in the insert and the update arm; the journal compatibility check runs on every param-write path; a state-only update keeps the stored values. Decides structural conformance, not equality of return values across backends for arbitrary histories nor NaN/inf fidelity of encodings.",
            "BaseStorage docstrings are the documented contract; api.proto parsed by a small regex parser; SQLAlchemy cascade semantics trusted.",
            "DESIGN.md §3 C01"),
}

NOT_APPLICABLE = {
    "C11": "Round-trip equality over all low/high/step digits is decimal/binary rounding behaviour; only a key-agreement clause is structural (hosted as R01.11), not enough to claim.",
    "C14": "Exactly-once enumeration and self-termination depend on a tree/grid rebuilt from runtime histories; no structural necessary condition beyond trivia.",
    "C15": "Exactness of hypervolume/rank/HSSP values for all point sets is numerical; values, not code shape.",
    "C17": "Equality of an incremental cursor computation with recomputation over all completion orders is a fact about histories; the monotone-filter clause is too weak to claim.",
    "C18": "Agreement with SciPy within tolerance and NaN-freedom in tails are floating-point facts.",
}

# clauses added in seeding round 4 (appended to the level text above)
ROUND4 = {
    "C01": "Round 4: copies derived from a template trial are deep; RDB keyed inserts have an update arm (writes overwrite by key); a trial set back to WAITING is not left below the in-memory scan cursor; the in-memory best-trial cache sees every completion.",
    "C02": "Round 4: the callbacks iterable is materialised once before the per-trial loop.",
    "C03": "Round 4: no explicit commit inside RDB storage code; the stored state is tested on the for-update row inside the writing transaction; a trial snapshot fetched by a cache is merged in the critical section it was fetched in.",
    "C04": "Round 4: RDB claim test and write are one transaction on the locked row; a claim lost to an already finished trial moves on; the enqueued value reaches the caller without re-assignment.",
    "C05": "Round 4: a survivor that loses the race for a dead holder's lock keeps waiting; no region-opening storage method is called inside a writing session region; no release after a failed acquire.",
    "C06": "Round 4: every JournalStorage answer is computed after the sync of the same call from the replay result only; the storage object keeps no other changing state.",
    "C07": "Round 4: get_lock_file never releases after a failed acquire.",
    "C08": "Round 4: the incremental fetch and the updates it leads to run in one held lock section.",
    "C09": "Round 4: no container-type test on values read back from attributes; constraints stored as an immutable snapshot; the gRPC decoder's use of unordered protobuf maps for params / distributions is reported (known finding).",
    "C10": "Round 4: rounding onto a step grid is anchored at low; TPE's truncated-normal samples are clipped into the domain.",
    "C12": "Round 4: a best-valued trial without recorded constraints must be examined against the rest of the study before it is returned (known finding on today's tree).",
    "C16": "Round 4: a protective field whose only guard is neither an order comparison nor the interval helper is a violation.",
    "C19": "Round 4: heartbeat age is the difference of two readings of the database clock; the FAIL compare-and-set is tested on the locked row in the writing transaction.",
    "C20": "Round 4: every public Study property returns a deep copy where a backend may share; deepcopy with a pre-seeded memo is not a deep copy; template copies are deep.",
}

# clauses added in seeding round 5
ROUND5 = {
    "C01": "Round 5: create_new_study returns the id of the study found by its own name; get_all_trials is number-ordered in both caches and the RDB query; template distributions enter the in-memory compatibility table.",
    "C02": "Round 5: the stop flag is cleared before the loops start; the completion log expects that no best trial exists yet.",
    "C03": "Round 5: the RDB trial number is counted from the row's own id after its insert; a backend write the cache mirrors and the cache update share one critical section.",
    "C04": "Round 5: the journal cursor advances one record at a time; the caches' incremental fetch is not filtered by state.",
    "C05": "Round 5: readers skip (not raise on) a torn last line; RDB writers acknowledge nothing after a failed transaction; an empty batch writes nothing.",
    "C06": "Round 5: both sides of an issuer test share the record's fate; every Redis key carries the backend's prefix.",
    "C07": "Round 5: the deferred decode error is raised only inside the size snapshot; every newline written terminates a record.",
    "C08": "Round 5: a cached study entry is dropped on every path of delete_study; backend delete and cache update are one section.",
    "C09": "Round 5: the scan-based best trial is the first extremal one in number order; copy_study's re-validation of library-produced trials is reported (known finding).",
    "C10": "Round 5: Trial's container properties return deep copies of its private cache.",
    "C13": "Round 5: no-reference sentinels of pruner helpers are NaN, not an infinity; in sign-applying functions every objective read is signed.",
    "C16": "Round 5: successive halving never records NaN as a rung value.",
    "C20": "Round 5: FrozenTrial arguments of study code count as shared; Study wrappers honour deepcopy=True; fields a Study caches from storage getters are as shared as the getter's result.",
}

# clauses added in seeding round 6
ROUND6 = {
    "C02": "Round 6: the worker pool is joined on every way out of optimize; the storages' finished guard is atomic with the write; the sampler's after_trial gets its own copy of the values.",
    "C05": "Round 6: the take-over clauses (lock observed, not its target; timer restarted; removal after a full grace period) are checked for C05 as well.",
    "C06": "Round 6: JournalStorage.__setstate__ re-creates what __init__ derives from the worker id prefix.",
    "C10": "Round 6: the grid-membership tolerance is a constant.",
    "C16": "Round 6: a threshold bound is missing only if it is None; the patience window is cut from the sorted step keys.",
}

PENDING_REASON = "static check designed (DESIGN.md §3) but not built yet in this snapshot; not claimed until it runs clean"


def main():
    props = [json.loads(l)["id"] for l in open(os.path.join(VERIF, "properties.jsonl"))]
    checks = []
    for pid in props:
        if pid in CLAIMED and os.path.exists(os.path.join(VERIF, "rules", pid.lower() + ".py")):
            tech, text, note, ref = CLAIMED[pid]
            if pid in ROUND4:
                text = text + " " + ROUND4[pid]
            if pid in ROUND5:
                text = text + " " + ROUND5[pid]
            if pid in ROUND6:
                text = text + " " + ROUND6[pid]
            checks.append({
                "property_id": pid,
                "quick_cmd": f"./check {pid} --tier quick",
                "thorough_cmd": f"./check {pid} --tier thorough",
                "evidence_file": f"/verif/evidence/{pid}.json",
                "replay_cmd_template": f"./check {pid} --replay {{path}}",
                "engine": "sa",
                "level_claimed": {"category": "other", "text": text, "design_ref": ref},
                "level_note": note,
                "technique": "static analysis: " + tech,
            })
    na = []
    for pid in props:
        if pid in NOT_APPLICABLE:
            na.append({"property_id": pid, "reason": NOT_APPLICABLE[pid]})
        elif pid not in {c["property_id"] for c in checks}:
            na.append({"property_id": pid, "reason": PENDING_REASON})
    man = {
        "version": 1,
        "setup_cmd": "true",
        "hooks": {
            "guard": "OPTUNA_VERIF",
            "enable": "none: the checks are static analyses of /repo's source; no instrumentation is compiled in and no source commit uses the guard",
            "baseline_off_cmd": "cd /repo && /venv/bin/python -m pytest -ra -q -p no:cacheprovider --timeout=900 --continue-on-collection-errors --junitxml=/tmp/optuna_baseline.junit.xml",
            "source_commits": [],
            "fix_commits": ["899865b", "bf20abd", "1904569", "255ec62", "eeba606", "b748d1a", "f27ae56", "503aa71", "b3b6513", "cbd503d", "5750c37", "749e06e", "f399ea2", "f103614", "939c19e", "33e60f9", "94707fb", "eb8d4ba", "d250f8b", "48d371c", "45a0361", "adb8439", "d0662f4", "3dc12ff", "b643a49", "aaf18b7", "9f97621", "946c5e6", "04a9fbc"],
            "add_only": True,
        },
        "engines": [{
            "name": "sa",
            "path": "/verif/sa",
            "serves_properties": [c["property_id"] for c in checks],
            "kind_free_text": "repository-specific static analysis on Python ast: symbol/class tables, statement CFG with exceptional edges and duplicated finally suites, reachability/dominance queries, lock-held sets, field-access census, taint/provenance, abstract path exploration, sibling tables",
        }],
        "checks": checks,
        "not_applicable": na,
        "notes": "All checks are static (no optuna code is imported or run). Before any rule runs the loader normalises every module (alpha-renaming of recognised function locals to the reference names in sa/localnames.json, canonical comparison orientation, negated if/else, augmented assignment, nested ifs, temp-returns): DESIGN.md 1.4. False-alarm corpus: neutral/ (40 independent refactorings, tools/run_neutral.py) and tools/metamorph.py (8 whole-tree rewrites). Seeded changes: seeded/ (tools/run_seeded.py). Exit 0 held / only KNOWN-FINDING lines; 1 VIOLATION; 2 ANALYSIS-ERROR (vanished anchor, floor not met). Known findings: /verif/known_findings.txt. Self-validation: ./check --selftest.",
    }
    with open(os.path.join(VERIF, "MANIFEST.json"), "w") as f:
        json.dump(man, f, indent=1)
    print("claimed:", [c["property_id"] for c in checks])


if __name__ == "__main__":
    main()
