#!/usr/bin/env python3
"""Metamorphic false-alarm test: behaviour-preserving, mechanical rewrites of the WHOLE optuna tree.

Every transform below keeps the meaning of the program (modulo evaluation order of side-effect-free
operands).  A sound check therefore has to stay silent (exit 0, both tiers) on every transformed
tree; exit 1 is a false alarm, exit 2 a rule that pinned the text instead of the structure.

  T0 reformat      parse + ast.unparse only (comments, layout, parentheses, quotes gone)
  T1 swap-compare  a < b  ->  b > a   (single-operator <, >, <=, >=, ==, !=)
  T2 invert-if     if c: A else: B  ->  if not c: B else: A
  T3 rename-locals every function-local name x -> x_rn (parameters, globals, attributes untouched)
  T4 expand-augassign  x += e -> x = x + e   (plain names only)
  T5 merge-ifs     if a: (if b: X)  ->  if a and b: X        (no else on either)
  T6 split-and     if a and b: X    ->  if a: (if b: X)      (no else)
  T7 temp-return   return <expr>    ->  _rv = <expr>; return _rv
  T8 expand-in     x in (A, B) -> x == A or x == B
  T10 rename-private-functions  every private function/method of the package `_f` -> `_f_rn`, all references included
  T11 name-tests   if <cond>: -> _c = <cond>; if _c:
  T12 de-morgan    a and b -> not (not a or not b), a or b -> not (not a and not b)  (branch tests)
  T13 if-to-ifexp  if c: x = a else: x = b -> x = a if c else b (also for two returns)
  T14 ifexp-to-if  the reverse
  T15 loop-to-comprehension  xs = []; for a in it: [if c:] xs.append(e) -> xs = [e for a in it if c]
  T16 comprehension-to-loop  the reverse (assignments to a plain name inside functions)
  T9 negate-eq     a != b -> not (a == b), a is not b -> not (a is b), a not in b -> not (a in b)

Usage: tools/metamorph.py [T1 T3 ...] [--tier quick|thorough|both] [--props C01,C07] [--bisect]
The transformed trees live in a scratch directory under $TMPDIR and are removed afterwards.
"""
from __future__ import annotations

import ast
import copy
import json
import os
import shutil
import subprocess
import sys
import tempfile
from concurrent.futures import ThreadPoolExecutor

VERIF = os.path.dirname(os.path.dirname(os.path.abspath(__file__)))
REPO = os.environ.get("VERIF_REPO", "/repo")
os.environ["VERIF_NO_SELFVALIDATION"] = "1"
MIRROR = {ast.Lt: ast.Gt, ast.Gt: ast.Lt, ast.LtE: ast.GtE, ast.GtE: ast.LtE, ast.Eq: ast.Eq, ast.NotEq: ast.NotEq}
SCOPES = (ast.FunctionDef, ast.AsyncFunctionDef, ast.Lambda, ast.ClassDef)


class SwapCompare(ast.NodeTransformer):
    def visit_Compare(self, node):
        self.generic_visit(node)
        if len(node.ops) == 1 and type(node.ops[0]) in MIRROR:
            return ast.Compare(left=node.comparators[0], ops=[MIRROR[type(node.ops[0])]()], comparators=[node.left])
        return node


class InvertIf(ast.NodeTransformer):
    def visit_If(self, node):
        self.generic_visit(node)
        if node.orelse:
            t = node.test
            nt = t.operand if isinstance(t, ast.UnaryOp) and isinstance(t.op, ast.Not) else ast.UnaryOp(op=ast.Not(), operand=t)
            return ast.If(test=nt, body=node.orelse, orelse=node.body)
        return node


class ExpandAug(ast.NodeTransformer):
    def visit_AugAssign(self, node):
        self.generic_visit(node)
        if isinstance(node.target, ast.Name):
            return ast.Assign(targets=[ast.Name(id=node.target.id, ctx=ast.Store())],
                              value=ast.BinOp(left=ast.Name(id=node.target.id, ctx=ast.Load()), op=node.op, right=node.value), lineno=node.lineno)
        return node


class MergeIfs(ast.NodeTransformer):
    def visit_If(self, node):
        self.generic_visit(node)
        if not node.orelse and len(node.body) == 1 and isinstance(node.body[0], ast.If) and not node.body[0].orelse:
            inner = node.body[0]
            vals = []
            for t in (node.test, inner.test):
                vals += t.values if isinstance(t, ast.BoolOp) and isinstance(t.op, ast.And) else [t]
            return ast.If(test=ast.BoolOp(op=ast.And(), values=vals), body=inner.body, orelse=[])
        return node


class SplitAnd(ast.NodeTransformer):
    def visit_If(self, node):
        self.generic_visit(node)
        if not node.orelse and isinstance(node.test, ast.BoolOp) and isinstance(node.test.op, ast.And) and len(node.test.values) >= 2:
            first, rest = node.test.values[0], node.test.values[1:]
            rest_t = rest[0] if len(rest) == 1 else ast.BoolOp(op=ast.And(), values=rest)
            return ast.If(test=first, body=[ast.If(test=rest_t, body=node.body, orelse=[])], orelse=[])
        return node


class TempReturn(ast.NodeTransformer):
    def _fix(self, body):
        out = []
        for st in body:
            if isinstance(st, ast.Return) and st.value is not None and not isinstance(st.value, (ast.Name, ast.Constant)):
                out.append(ast.Assign(targets=[ast.Name(id="_rv", ctx=ast.Store())], value=st.value, lineno=st.lineno))
                out.append(ast.Return(value=ast.Name(id="_rv", ctx=ast.Load())))
            else:
                out.append(st)
        return out

    def generic_visit(self, node):
        super().generic_visit(node)
        for fld in ("body", "orelse", "finalbody"):
            b = getattr(node, fld, None)
            if isinstance(b, list) and b and isinstance(b[0], ast.stmt):
                setattr(node, fld, self._fix(b))
        if isinstance(node, ast.Try):
            for h in node.handlers:
                h.body = self._fix(h.body)
        return node

    def visit_Lambda(self, node):
        return node


def _own(fn):
    """nodes of a function body without descending into nested scopes"""
    stack = list(fn.body) if not isinstance(fn, ast.Lambda) else [fn.body]
    while stack:
        n = stack.pop()
        yield n
        for ch in ast.iter_child_nodes(n):
            if not isinstance(ch, SCOPES):
                stack.append(ch)
            else:
                # decorators / defaults / bases are evaluated in the enclosing scope
                for sub in getattr(ch, "decorator_list", []):
                    stack.append(sub)


class RenameLocals(ast.NodeTransformer):
    """x -> x_rn for names assigned in the function (not parameters / global / nonlocal), consistently in
    the whole subtree (closures and comprehensions see the renamed name). Names that a nested scope binds
    itself (its parameters), imported names and exception names are left alone."""

    def _rename_in(self, fn):
        params = {a.arg for a in fn.args.posonlyargs + fn.args.args + fn.args.kwonlyargs}
        if fn.args.vararg:
            params.add(fn.args.vararg.arg)
        if fn.args.kwarg:
            params.add(fn.args.kwarg.arg)
        stores, skip = set(), set(params)
        for n in _own(fn):
            if isinstance(n, ast.Name) and isinstance(n.ctx, (ast.Store, ast.Del)):
                stores.add(n.id)
            elif isinstance(n, (ast.Global, ast.Nonlocal)):
                skip |= set(n.names)
            elif isinstance(n, (ast.Import, ast.ImportFrom)):
                skip |= {(a.asname or a.name).split(".")[0] for a in n.names}
            elif isinstance(n, ast.ExceptHandler) and n.name:
                skip.add(n.name)
            elif isinstance(n, (ast.MatchAs, ast.MatchStar)) and getattr(n, "name", None):
                skip.add(n.name)
        for n in ast.walk(fn):
            if n is not fn and isinstance(n, (ast.FunctionDef, ast.AsyncFunctionDef, ast.Lambda)):
                a = n.args
                skip |= {x.arg for x in a.posonlyargs + a.args + a.kwonlyargs}
                if a.vararg:
                    skip.add(a.vararg.arg)
                if a.kwarg:
                    skip.add(a.kwarg.arg)
                if not isinstance(n, ast.Lambda):
                    skip.add(n.name)
                    for m in ast.walk(n):
                        if isinstance(m, (ast.Global, ast.Nonlocal)):
                            skip |= set(m.names)
                        if isinstance(m, ast.Name) and isinstance(m.ctx, ast.Store):
                            skip.add(m.id)  # a nested function's own local of the same name: keep both apart by not touching either
            if n is not fn and isinstance(n, ast.ClassDef):
                skip.add(n.name)
                for m in ast.walk(n):
                    if isinstance(m, ast.Name) and isinstance(m.ctx, ast.Store):
                        skip.add(m.id)
        names = {s for s in stores if s not in skip and not s.startswith("__")}
        if not names:
            return
        for n in ast.walk(fn):
            if isinstance(n, ast.Name) and n.id in names:
                n.id = n.id + "_rn"

    def visit_FunctionDef(self, node):
        self._rename_in(node)
        # nested functions: their own locals
        for ch in ast.walk(node):
            if ch is not node and isinstance(ch, (ast.FunctionDef, ast.AsyncFunctionDef)):
                self._rename_in(ch)
        return node

    visit_AsyncFunctionDef = visit_FunctionDef


class ExpandIn(ast.NodeTransformer):
    """x in (A, B) -> x == A or x == B ; x not in (A, B) -> x != A and x != B   (x a plain name/attribute chain,
    at most 3 constant-like alternatives)"""

    def visit_Compare(self, node):
        self.generic_visit(node)
        if len(node.ops) == 1 and isinstance(node.ops[0], (ast.In, ast.NotIn)) and isinstance(node.comparators[0], (ast.Tuple, ast.List, ast.Set)):
            elts = node.comparators[0].elts
            simple = isinstance(node.left, (ast.Name, ast.Attribute)) and 2 <= len(elts) <= 3 and all(isinstance(e, (ast.Attribute, ast.Constant, ast.Name)) for e in elts)
            if simple:
                pos = isinstance(node.ops[0], ast.In)
                parts = [ast.Compare(left=copy.deepcopy(node.left), ops=[ast.Eq() if pos else ast.NotEq()], comparators=[e]) for e in elts]
                return ast.BoolOp(op=ast.Or() if pos else ast.And(), values=parts)
        return node


class NegateEq(ast.NodeTransformer):
    """a != b -> not (a == b);  a is not b -> not (a is b);  a not in b -> not (a in b)   (exact negations only)"""
    FLIP = {ast.NotEq: ast.Eq, ast.IsNot: ast.Is, ast.NotIn: ast.In}

    def visit_Compare(self, node):
        self.generic_visit(node)
        if len(node.ops) == 1 and type(node.ops[0]) in self.FLIP:
            return ast.UnaryOp(op=ast.Not(), operand=ast.Compare(left=node.left, ops=[self.FLIP[type(node.ops[0])]()], comparators=node.comparators))
        return node


class RenamePrivateFuncs(ast.NodeTransformer):
    """package-wide: every private function / method `_name` defined in the package -> `_name_rn` (definition,
    attribute references, bare references, from-imports). The set of names is collected over the whole package."""
    NAMES: set = set()

    def visit_FunctionDef(self, node):
        self.generic_visit(node)
        if node.name in self.NAMES:
            node.name += "_rn"
        return node

    visit_AsyncFunctionDef = visit_FunctionDef

    def visit_Attribute(self, node):
        self.generic_visit(node)
        if node.attr in self.NAMES:
            node.attr += "_rn"
        return node

    def visit_Name(self, node):
        if node.id in self.NAMES:
            node.id += "_rn"
        return node

    def visit_ImportFrom(self, node):
        for a in node.names:
            if a.name in self.NAMES:
                a.name += "_rn"
        return node


def _collect_private_funcs():
    names, other = set(), set()
    for root, _d, files in os.walk(os.path.join(REPO, "optuna")):
        for fn in files:
            if fn.endswith(".py"):
                try:
                    tree = ast.parse(open(os.path.join(root, fn), encoding="utf-8").read())
                except SyntaxError:
                    continue
                for n in ast.walk(tree):
                    if isinstance(n, (ast.FunctionDef, ast.AsyncFunctionDef)) and n.name.startswith("_") and not n.name.endswith("__"):
                        names.add(n.name)
                    elif isinstance(n, ast.ClassDef):
                        other.add(n.name)
                    elif isinstance(n, ast.Name) and isinstance(n.ctx, ast.Store):
                        other.add(n.id)
                    elif isinstance(n, ast.arg):
                        other.add(n.arg)
    return names - other  # a name also used for a variable / parameter / class is left alone


class NameTests(ast.NodeTransformer):
    """if <cond>: ...  ->  _c<n> = <cond>; if _c<n>: ...   (every `if` statement whose test is not a bare name;
    `elif` arms are left alone because the test would have to move into the previous arm)"""

    def __init__(self):
        self.n = 0

    def _fix(self, body):
        out = []
        for st in body:
            if isinstance(st, ast.If) and not isinstance(st.test, (ast.Name, ast.Constant)):
                self.n += 1
                nm = f"_c{self.n}"
                out.append(ast.Assign(targets=[ast.Name(id=nm, ctx=ast.Store())], value=st.test, lineno=st.lineno))
                st.test = ast.Name(id=nm, ctx=ast.Load())
            out.append(st)
        return out

    def generic_visit(self, node):
        super().generic_visit(node)
        for fld in ("body", "orelse", "finalbody"):
            b = getattr(node, fld, None)
            if isinstance(b, list) and b and isinstance(b[0], ast.stmt):
                # an `elif` is an If that is the only statement of an orelse: leave it
                if fld == "orelse" and isinstance(node, ast.If) and len(b) == 1 and isinstance(b[0], ast.If):
                    continue
                setattr(node, fld, self._fix(b))
        return node


class DeMorgan(ast.NodeTransformer):
    """a and b -> not (not a or not b);  a or b -> not (not a and not b)   (inside `if`/`while` tests only)"""

    def _dm(self, t):
        if isinstance(t, ast.BoolOp):
            vals = [ast.UnaryOp(op=ast.Not(), operand=self._dm(v)) for v in t.values]
            other = ast.Or() if isinstance(t.op, ast.And) else ast.And()
            return ast.UnaryOp(op=ast.Not(), operand=ast.BoolOp(op=other, values=vals))
        return t

    def visit_If(self, node):
        self.generic_visit(node)
        node.test = self._dm(node.test)
        return node

    def visit_While(self, node):
        self.generic_visit(node)
        node.test = self._dm(node.test)
        return node


class IfToIfExp(ast.NodeTransformer):
    """if c: x = a else: x = b  ->  x = a if c else b ;  if c: return a else: return b -> return a if c else b"""

    def visit_If(self, node):
        self.generic_visit(node)
        if len(node.body) == 1 and len(node.orelse) == 1:
            a, b = node.body[0], node.orelse[0]
            if isinstance(a, ast.Assign) and isinstance(b, ast.Assign) and len(a.targets) == 1 and len(b.targets) == 1 \
                    and isinstance(a.targets[0], ast.Name) and ast.dump(a.targets[0]) == ast.dump(b.targets[0]):
                return ast.Assign(targets=a.targets, value=ast.IfExp(test=node.test, body=a.value, orelse=b.value), lineno=node.lineno)
            if isinstance(a, ast.Return) and isinstance(b, ast.Return) and a.value is not None and b.value is not None:
                return ast.Return(value=ast.IfExp(test=node.test, body=a.value, orelse=b.value))
        return node


class IfExpToIf(ast.NodeTransformer):
    """x = a if c else b -> if c: x = a else: x = b ;  return a if c else b -> if c: return a else: return b"""

    def _fix(self, body):
        out = []
        for st in body:
            if isinstance(st, ast.Assign) and isinstance(st.value, ast.IfExp) and len(st.targets) == 1 and isinstance(st.targets[0], ast.Name):
                v = st.value
                out.append(ast.If(test=v.test, body=[ast.Assign(targets=st.targets, value=v.body, lineno=st.lineno)],
                                  orelse=[ast.Assign(targets=st.targets, value=v.orelse, lineno=st.lineno)]))
            elif isinstance(st, ast.Return) and isinstance(st.value, ast.IfExp):
                v = st.value
                out.append(ast.If(test=v.test, body=[ast.Return(value=v.body)], orelse=[ast.Return(value=v.orelse)]))
            else:
                out.append(st)
        return out

    def generic_visit(self, node):
        super().generic_visit(node)
        for fld in ("body", "orelse", "finalbody"):
            b = getattr(node, fld, None)
            if isinstance(b, list) and b and isinstance(b[0], ast.stmt):
                setattr(node, fld, self._fix(b))
        return node

    def visit_Lambda(self, node):
        return node


class LoopToComp(ast.NodeTransformer):
    """xs = []; for a in it: [if c:] xs.append(e)   ->   xs = [e for a in it if c]"""

    def _fix(self, body):
        out, i = [], 0
        while i < len(body):
            st, nxt = body[i], (body[i + 1] if i + 1 < len(body) else None)
            if (isinstance(st, ast.Assign) and len(st.targets) == 1 and isinstance(st.targets[0], ast.Name) and isinstance(st.value, ast.List) and not st.value.elts
                    and isinstance(nxt, ast.For) and not nxt.orelse and len(nxt.body) == 1):
                xs = st.targets[0].id
                inner, cond = nxt.body[0], None
                if isinstance(inner, ast.If) and not inner.orelse and len(inner.body) == 1:
                    cond, inner = inner.test, inner.body[0]
                if (isinstance(inner, ast.Expr) and isinstance(inner.value, ast.Call) and isinstance(inner.value.func, ast.Attribute) and inner.value.func.attr == "append"
                        and isinstance(inner.value.func.value, ast.Name) and inner.value.func.value.id == xs and len(inner.value.args) == 1
                        and not any(isinstance(x, ast.Name) and x.id == xs for x in ast.walk(inner.value.args[0]))
                        and not (cond is not None and any(isinstance(x, ast.Name) and x.id == xs for x in ast.walk(cond)))
                        and not any(isinstance(x, (ast.Yield, ast.Await, ast.NamedExpr)) for x in ast.walk(nxt))):
                    comp = ast.ListComp(elt=inner.value.args[0], generators=[ast.comprehension(target=nxt.target, iter=nxt.iter, ifs=[cond] if cond is not None else [], is_async=0)])
                    out.append(ast.Assign(targets=st.targets, value=comp, lineno=st.lineno))
                    i += 2
                    continue
            out.append(st)
            i += 1
        return out

    def generic_visit(self, node):
        super().generic_visit(node)
        for fld in ("body", "orelse", "finalbody"):
            b = getattr(node, fld, None)
            if isinstance(b, list) and b and isinstance(b[0], ast.stmt):
                setattr(node, fld, self._fix(b))
        return node


class CompToLoop(ast.NodeTransformer):
    """xs = [e for a in it if c]   ->   xs = []; for a in it: if c: xs.append(e)    (single generator, plain name target of the assignment,
    inside functions only; the comprehension variable must not clash with a name of the function)"""

    def visit_FunctionDef(self, node):
        self.names = {x.id for x in ast.walk(node) if isinstance(x, ast.Name)} | {a.arg for a in ast.walk(node) if isinstance(a, ast.arg)}
        self.comp_names = {}
        for x in ast.walk(node):
            if isinstance(x, ast.comprehension):
                for t in ast.walk(x.target):
                    if isinstance(t, ast.Name):
                        self.comp_names[t.id] = self.comp_names.get(t.id, 0) + 1
        self.in_fn = getattr(self, "in_fn", 0) + 1
        self.generic_visit(node)
        self.in_fn -= 1
        return node

    def _fix(self, body):
        out = []
        for st in body:
            if (getattr(self, "in_fn", 0) and isinstance(st, ast.Assign) and len(st.targets) == 1 and isinstance(st.targets[0], ast.Name) and isinstance(st.value, ast.ListComp)
                    and len(st.value.generators) == 1 and not st.value.generators[0].is_async):
                g = st.value.generators[0]
                tn = [t.id for t in ast.walk(g.target) if isinstance(t, ast.Name)]
                xs = st.targets[0].id
                uses_xs = any(isinstance(x, ast.Name) and x.id == xs for x in ast.walk(st.value))
                # the loop variable leaks into the function scope: only when it is used nowhere else under that name
                clash = any(sum(1 for x in ast.walk(ast.Module(body=body, type_ignores=[])) if isinstance(x, ast.Name) and x.id == t) and t in self.names and
                            sum(1 for x in ast.walk(st) if isinstance(x, ast.Name) and x.id == t) != sum(1 for x in ast.walk(ast.Module(body=[s_ for s_ in body], type_ignores=[])) if isinstance(x, ast.Name) and x.id == t)
                            for t in tn)
                nested = any(isinstance(x, (ast.ListComp, ast.SetComp, ast.DictComp, ast.GeneratorExp, ast.Lambda)) for x in ast.walk(st.value.elt)) or \
                    any(isinstance(x, (ast.ListComp, ast.SetComp, ast.DictComp, ast.GeneratorExp, ast.Lambda)) for i_ in g.ifs for x in ast.walk(i_))
                if not uses_xs and not clash and not nested:
                    app = ast.Expr(value=ast.Call(func=ast.Attribute(value=ast.Name(id=xs, ctx=ast.Load()), attr="append", ctx=ast.Load()), args=[st.value.elt], keywords=[]))
                    inner = [app]
                    if g.ifs:
                        test = g.ifs[0] if len(g.ifs) == 1 else ast.BoolOp(op=ast.And(), values=list(g.ifs))
                        inner = [ast.If(test=test, body=[app], orelse=[])]
                    out.append(ast.Assign(targets=st.targets, value=ast.List(elts=[], ctx=ast.Load()), lineno=st.lineno))
                    out.append(ast.For(target=g.target, iter=g.iter, body=inner, orelse=[], lineno=st.lineno))
                    continue
            out.append(st)
        return out

    def generic_visit(self, node):
        super().generic_visit(node)
        for fld in ("body", "orelse", "finalbody"):
            b = getattr(node, fld, None)
            if isinstance(b, list) and b and isinstance(b[0], ast.stmt):
                setattr(node, fld, self._fix(b))
        return node


TRANSFORMS = {
    "T0": ("reformat", None),
    "T1": ("swap-compare", SwapCompare),
    "T2": ("invert-if", InvertIf),
    "T3": ("rename-locals", RenameLocals),
    "T4": ("expand-augassign", ExpandAug),
    "T5": ("merge-ifs", MergeIfs),
    "T6": ("split-and", SplitAnd),
    "T7": ("temp-return", TempReturn),
    "T8": ("expand-in-tuple", ExpandIn),
    "T9": ("negate-eq", NegateEq),
    "T10": ("rename-private-functions", RenamePrivateFuncs),
    "T11": ("name-tests", NameTests),
    "T12": ("de-morgan", DeMorgan),
    "T13": ("if-to-ifexp", IfToIfExp),
    "T14": ("ifexp-to-if", IfExpToIf),
    "T15": ("loop-to-comprehension", LoopToComp),
    "T16": ("comprehension-to-loop", CompToLoop),
}


def transform_source(src: str, tname: str) -> str:
    tree = ast.parse(src)
    cls = TRANSFORMS[tname][1]
    if cls is not None:
        tree = cls().visit(tree)
        ast.fix_missing_locations(tree)
    out = ast.unparse(tree)
    ast.parse(out)  # must still be a program
    return out + "\n"


def build_tree(tname: str, only: str | None = None) -> str:
    if tname == "T10" and not RenamePrivateFuncs.NAMES:
        RenamePrivateFuncs.NAMES = _collect_private_funcs()
    tmp = tempfile.mkdtemp(prefix=f"meta_{tname}_")
    shutil.copytree(os.path.join(REPO, "optuna"), os.path.join(tmp, "optuna"))
    for root, _dirs, files in os.walk(os.path.join(tmp, "optuna")):
        for fn in files:
            if not fn.endswith(".py"):
                continue
            path = os.path.join(root, fn)
            rel = os.path.relpath(path, tmp)
            if only is not None and rel != only:
                continue
            src = open(path, encoding="utf-8").read()
            try:
                new = transform_source(src, tname)
            except SyntaxError:
                continue
            open(path, "w", encoding="utf-8").write(new)
    return tmp


def run_checks(tmp: str, props, tiers):
    fired = {}

    def one(job):
        pid, tier = job
        rr = subprocess.run([os.path.join(VERIF, "check"), pid, "--tier", tier, "--repo", tmp, "--evidence-dir", os.path.join(tmp, "ev_" + pid + tier)],
                            capture_output=True, text=True)
        if rr.returncode != 0:
            lines = [l for l in rr.stdout.splitlines() if l.startswith(("FINDING", "ANALYSIS-ERROR"))]
            return (f"{pid}/{tier}", {"rc": rr.returncode, "lines": [l[:330] for l in lines[:6]], "n": len(lines)})
        return None
    with ThreadPoolExecutor(8) as ex:
        for r in ex.map(one, [(p, t) for t in tiers for p in props]):
            if r:
                fired[r[0]] = r[1]
    return fired


def main(argv):
    tier = "quick"
    props = None
    bisect = "--bisect" in argv
    argv = [a for a in argv if a != "--bisect"]
    if "--tier" in argv:
        tier = argv[argv.index("--tier") + 1]
        argv = [a for a in argv if a not in ("--tier", tier)]
    if "--props" in argv:
        v = argv[argv.index("--props") + 1]
        props = v.split(",")
        argv = [a for a in argv if a not in ("--props", v)]
    tiers = ["quick", "thorough"] if tier == "both" else [tier]
    man = json.load(open(os.path.join(VERIF, "MANIFEST.json")))
    props = props or [c["property_id"] for c in man["checks"]]
    names = argv or list(TRANSFORMS)
    ok = True
    for tname in names:
        tmp = build_tree(tname)
        try:
            fired = run_checks(tmp, props, tiers)
        finally:
            shutil.rmtree(tmp, ignore_errors=True)
        label = f"{tname} {TRANSFORMS[tname][0]}"
        if not fired:
            print(f"{label}: all {len(props)} checks silent ({'+'.join(tiers)})")
            continue
        ok = False
        for k, v in sorted(fired.items()):
            print(f"{label}: {'FALSE-ALARM' if v['rc'] == 1 else 'BRITTLE(exit %d)' % v['rc']} {k} ({v['n']} lines)")
            for l in v["lines"][:4]:
                print("      " + l)
        if bisect:
            files = []
            for root, _d, fs in os.walk(os.path.join(REPO, "optuna")):
                for fn in fs:
                    if fn.endswith(".py"):
                        files.append(os.path.relpath(os.path.join(root, fn), REPO))
            for k in sorted(fired):
                pid, t = k.split("/")
                culprits = []

                def probe(rel, pid=pid, t=t):
                    tmp2 = build_tree(tname, only=rel)
                    try:
                        return rel, run_checks(tmp2, [pid], [t])
                    finally:
                        shutil.rmtree(tmp2, ignore_errors=True)
                with ThreadPoolExecutor(6) as ex:
                    for rel, f2 in ex.map(probe, sorted(files)):
                        if f2:
                            culprits.append(rel)
                print(f"      bisect {k}: transform of {culprits} alone trips the check")
    print("metamorphic run:", "all silent" if ok else "SOME FIRED")
    return 0 if ok else 1


if __name__ == "__main__":
    sys.exit(main(sys.argv[1:]))
