#!/usr/bin/env python3
"""Run every check against every behaviour-preserving refactoring under /verif/neutral/<id>/patch.diff.

The refactorings were written by independent sub-agents who saw nothing of /verif (rename locals,
extract/inline helpers, invert if/else, swap comparison operands, loop <-> comprehension, ...).
A correct check stays silent on all of them: exit 0 in both tiers. Anything else is a false alarm
(exit 1) or a brittle anchor (exit 2) and is printed.  As in run_seeded.py the patch is applied to a
scratch copy of /repo's optuna/ tree; /repo is never touched.
Usage: tools/run_neutral.py [id ...] [--tier quick|thorough|both] [-j N]
"""
import json
import os
import shutil
import subprocess
import sys
import tempfile
from concurrent.futures import ThreadPoolExecutor

VERIF = os.path.dirname(os.path.dirname(os.path.abspath(__file__)))
REPO = os.environ.get("VERIF_REPO", "/repo")
os.environ["VERIF_NO_SELFVALIDATION"] = "1"  # the thorough tier's own variant run is not wanted here
ROOT = os.path.join(VERIF, "neutral")


def one(s, props, tiers):
    tmp = tempfile.mkdtemp(prefix="neutral_")
    try:
        shutil.copytree(os.path.join(REPO, "optuna"), os.path.join(tmp, "optuna"))
        patch = os.path.join(ROOT, s, "patch.diff")
        r = subprocess.run(["git", "apply", "--unsafe-paths", "--directory", tmp, patch], cwd=tmp, capture_output=True, text=True)
        if r.returncode != 0:
            r = subprocess.run(["patch", "-p1", "-d", tmp, "-i", patch], capture_output=True, text=True)
        if r.returncode != 0:
            return s, {"error": "patch does not apply: " + (r.stderr or r.stdout)[-200:]}
        fired = {}
        for tier in tiers:
            for pid in props:
                rr = subprocess.run([os.path.join(VERIF, "check"), pid, "--tier", tier, "--repo", tmp, "--evidence-dir", os.path.join(tmp, "ev")],
                                    capture_output=True, text=True)
                if rr.returncode != 0:
                    lines = [l for l in rr.stdout.splitlines() if l.startswith(("FINDING", "ANALYSIS-ERROR"))]
                    fired[f"{pid}/{tier}"] = {"rc": rr.returncode, "lines": [l[:300] for l in lines[:4]]}
        return s, {"fired": fired}
    finally:
        shutil.rmtree(tmp, ignore_errors=True)


def main(argv):
    tier = "both"
    jobs = 8
    if "--tier" in argv:
        tier = argv[argv.index("--tier") + 1]
        argv = [a for a in argv if a not in ("--tier", tier)]
    if "-j" in argv:
        jobs = int(argv[argv.index("-j") + 1])
        argv = [a for a in argv if a not in ("-j", str(jobs))]
    tiers = ["quick", "thorough"] if tier == "both" else [tier]
    man = json.load(open(os.path.join(VERIF, "MANIFEST.json")))
    props = [c["property_id"] for c in man["checks"]]
    ids = sorted(d for d in os.listdir(ROOT) if os.path.exists(os.path.join(ROOT, d, "patch.diff")))
    if argv:
        ids = [s for s in ids if any(s.startswith(a) for a in argv)]
    ok = True
    with ThreadPoolExecutor(jobs) as ex:
        for s, r in ex.map(lambda s: one(s, props, tiers), ids):
            if "error" in r:
                print(f"{s}: ERROR {r['error']}")
                ok = False
            elif r["fired"]:
                ok = False
                for k, v in sorted(r["fired"].items()):
                    print(f"{s}: {'FALSE-ALARM' if v['rc'] == 1 else 'BRITTLE(exit %d)' % v['rc']} {k}")
                    for l in v["lines"][:2]:
                        print("      " + l)
            else:
                print(f"{s}: silent")
    print(f"{len(ids)} refactorings, {'all silent' if ok else 'SOME FIRED'}")
    return 0 if ok else 1


if __name__ == "__main__":
    sys.exit(main(sys.argv[1:]))
