#!/usr/bin/env python3
"""Run every check against every seeded change under /verif/seeded/<id>/patch.diff.

For each seeded change a scratch copy of /repo's working tree (optuna/ only, a few MB) is made
under $TMPDIR, the patch is applied there with `git apply`, all claimed checks run with
--repo <scratch> (evidence written to a scratch directory, never to /verif/evidence), and the
copy is removed.  Prints a matrix: which checks fired for which seeded change.
Usage: tools/run_seeded.py [seed-id ...] [--tier quick|thorough]
"""
import json
import os
import shutil
import subprocess
import sys
import tempfile

VERIF = os.path.dirname(os.path.dirname(os.path.abspath(__file__)))
REPO = os.environ.get("VERIF_REPO", "/repo")
os.environ["VERIF_NO_SELFVALIDATION"] = "1"  # the thorough tier's own variant run is not wanted here


def main(argv):
    tier = "quick"
    if "--tier" in argv:
        tier = argv[argv.index("--tier") + 1]
        argv = [a for a in argv if a not in ("--tier", tier)]
    man = json.load(open(os.path.join(VERIF, "MANIFEST.json")))
    props = [c["property_id"] for c in man["checks"]]
    seeds = sorted(d for d in os.listdir(os.path.join(VERIF, "seeded")) if os.path.exists(os.path.join(VERIF, "seeded", d, "patch.diff")))
    if argv:
        seeds = [s for s in seeds if s in argv]
    results = {}

    def one(s):
        meta = {}
        mp = os.path.join(VERIF, "seeded", s, "meta.json")
        if os.path.exists(mp):
            meta = json.load(open(mp))
        tmp = tempfile.mkdtemp(prefix="seed_")
        try:
            shutil.copytree(os.path.join(REPO, "optuna"), os.path.join(tmp, "optuna"))
            r = subprocess.run(["git", "apply", "--unsafe-paths", "--directory", tmp, os.path.join(VERIF, "seeded", s, "patch.diff")],
                               cwd=tmp, capture_output=True, text=True)
            if r.returncode != 0:
                r = subprocess.run(["patch", "-p1", "-d", tmp, "-i", os.path.join(VERIF, "seeded", s, "patch.diff")], capture_output=True, text=True)
            if r.returncode != 0:
                return s, {"error": "patch does not apply: " + (r.stderr or r.stdout)[-200:]}
            fired = {}
            for pid in props:
                ev = os.path.join(tmp, "ev")
                rr = subprocess.run([os.path.join(VERIF, "check"), pid, "--tier", tier, "--repo", tmp, "--evidence-dir", ev], capture_output=True, text=True)
                if rr.returncode != 0:
                    lines = [l for l in rr.stdout.splitlines() if l.startswith("FINDING") or l.startswith("ANALYSIS-ERROR")]
                    fired[pid] = {"rc": rr.returncode, "findings": [l[:260] for l in lines[:4]]}
            return s, {"property": meta.get("property"), "fired": fired}
        finally:
            shutil.rmtree(tmp, ignore_errors=True)
    from concurrent.futures import ThreadPoolExecutor
    with ThreadPoolExecutor(int(os.environ.get("VERIF_JOBS", "10"))) as ex:
        for s, r in ex.map(one, seeds):
            results[s] = r
    ok = True
    for s, r in results.items():
        if "error" in r:
            print(f"{s}: ERROR {r['error']}")
            ok = False
            continue
        target = r["property"]
        fired = r["fired"]
        caught = target in fired and fired[target]["rc"] == 1
        others = sorted(k for k in fired if k != target)
        print(f"{s}: target={target} {'CAUGHT' if caught else ('caught-by-other' if any(fired[k]['rc'] == 1 for k in others) else 'MISSED')}"
              f" fired={sorted(fired)}")
        for k in sorted(fired):
            for l in fired[k]["findings"][:2]:
                print(f"      [{k}] {l}")
        if not caught:
            ok = False
    json.dump(results, open(os.path.join(VERIF, "seeded", "last_run.json"), "w"), indent=1)
    return 0 if ok else 1


if __name__ == "__main__":
    sys.exit(main(sys.argv[1:]))
