#!/usr/bin/env python3
"""Confirm a seeded change produced by a sub-agent and file it under /verif/seeded/<id>/.

  tools/triage_seed.py <src_dir> <seed-id> <property> [--tests "pytest args"] [--grpc] [--needs "text"]

Steps (in a fresh scratch worktree of /repo under /tmp, removed afterwards):
  1. demo passes on the clean tree, 2. patch applies, 3. demo fails with the patch,
  4. the given test selection passes with the patch (failures that also occur on the clean tree are
     ignored: compared by test id), 5. files copied to /verif/seeded/<id>/ with meta.json.
"""
import hashlib
import json
import os
import shutil
import subprocess
import sys
import xml.etree.ElementTree as ET

VERIF = os.path.dirname(os.path.dirname(os.path.abspath(__file__)))
PY = "/venv/bin/python"
DEFAULT_TESTS = {
    "storages": "tests/storages_tests tests/study_tests/test_study.py",
    "study": "tests/study_tests tests/trial_tests",
    "samplers": "tests/samplers_tests tests/pruners_tests tests/study_tests/test_study.py",
    "pruners": "tests/pruners_tests tests/trial_tests",
}


def run(cmd, cwd, timeout=3600):
    return subprocess.run(cmd, cwd=cwd, shell=True, capture_output=True, text=True, timeout=timeout)


def junit_failures(path):
    out = set()
    if not os.path.exists(path):
        return None
    for tc in ET.parse(path).iter("testcase"):
        if any(ch.tag in ("failure", "error") for ch in tc):
            out.add(f"{tc.get('classname')}::{tc.get('name')}")
    return out


def demo_result(wt, demo):
    r = run(f"{PY} {demo}", wt, timeout=900)
    lines = [l.strip() for l in (r.stdout + r.stderr).splitlines() if l.strip()]
    verdict_fail = any(l == "FAIL" or l.startswith("FAIL:") or l.startswith("FAIL ") for l in lines)
    failed = r.returncode != 0 or verdict_fail
    return failed, (r.stdout + r.stderr)[-400:]


def main(argv):
    src, sid, prop = argv[0], argv[1], argv[2]
    tests = None
    grpc = "--grpc" in argv
    needs = ""
    if "--tests" in argv:
        tests = argv[argv.index("--tests") + 1]
    if "--needs" in argv:
        needs = argv[argv.index("--needs") + 1]
    tests = DEFAULT_TESTS.get(tests, tests) or DEFAULT_TESTS["storages"]
    wt = f"/tmp/triage_{sid}"
    subprocess.run(["git", "-C", "/repo", "worktree", "remove", "--force", wt], capture_output=True)
    subprocess.check_call(["git", "-C", "/repo", "worktree", "add", "-q", wt, "HEAD"])
    report = {"seed": sid, "property": prop}
    try:
        demo = None
        for cand in ("demo.py", "demo_test.py", "test_demo.py"):
            if os.path.exists(os.path.join(src, cand)):
                demo = cand
        assert demo, "no demo file"
        shutil.copy(os.path.join(src, demo), os.path.join(wt, demo))
        clean_failed, out0 = demo_result(wt, demo)
        report["demo_clean"] = "FAILS" if clean_failed else "passes"
        r = run(f"git apply {os.path.join(src, 'patch.diff')}", wt)
        if r.returncode != 0:
            # written against an earlier commit of /repo: apply with context fuzz and keep the re-based diff
            r = run(f"patch -p1 -s -i {os.path.join(src, 'patch.diff')}", wt)
            run("find . -name '*.orig' -delete", wt)
            if r.returncode == 0:
                rebased = run("git diff", wt).stdout
                open(os.path.join(src, "patch.diff"), "w").write(rebased)
                report["rebased_on_head"] = True
        report["patch_applies"] = r.returncode == 0
        if r.returncode != 0:
            print(json.dumps(report, indent=1), r.stderr)
            return 1
        patched_failed, out1 = demo_result(wt, demo)
        report["demo_patched"] = "fails" if patched_failed else "PASSES"
        report["demo_output_patched"] = out1[-300:]
        # tests with the patch
        cmd = f"{PY} -m pytest -q -p no:cacheprovider --timeout=900 -n 12 -k 'not grpc' --junitxml=/tmp/{sid}_p.xml {tests}"
        rp = run(cmd, wt)
        fp = junit_failures(f"/tmp/{sid}_p.xml")
        if grpc:
            rg = run(f"{PY} -m pytest -q -p no:cacheprovider --timeout=900 -k grpc --junitxml=/tmp/{sid}_pg.xml tests/storages_tests", wt)
            fp |= junit_failures(f"/tmp/{sid}_pg.xml") or set()
        run("git checkout -- .", wt)
        digest = hashlib.sha1((tests + run("git rev-parse HEAD", wt).stdout).encode()).hexdigest()[:10]
        base_file = f"/tmp/triage_base_{digest}_{int(grpc)}.json"
        if os.path.exists(base_file):
            fb = set(json.load(open(base_file)))
        else:
            run(f"{PY} -m pytest -q -p no:cacheprovider --timeout=900 -n 12 -k 'not grpc' --junitxml=/tmp/{sid}_b.xml {tests}", wt)
            fb = junit_failures(f"/tmp/{sid}_b.xml") or set()
            if grpc:
                run(f"{PY} -m pytest -q -p no:cacheprovider --timeout=900 -k grpc --junitxml=/tmp/{sid}_bg.xml tests/storages_tests", wt)
                fb |= junit_failures(f"/tmp/{sid}_bg.xml") or set()
            json.dump(sorted(fb), open(base_file, "w"))
        new_fail = sorted((fp or set()) - fb)
        # timing-sensitive tests fail under machine load: a test that fails only in the loaded run but passes when run on
        # its own with the patch applied is not a failure caused by the patch
        if new_fail:
            run(f"git apply {os.path.join(src, 'patch.diff')}", wt)
            still = []
            for tid in new_fail:
                cls_, _, name = tid.partition("::")
                path = cls_.replace(".", "/") + ".py"
                base_name = name.split("[")[0]
                rr = run(f"{PY} -m pytest -q -p no:cacheprovider --timeout=900 {path} -k '{base_name}'", wt)
                if rr.returncode != 0:
                    still.append(tid)
            report["flaky_under_load_passed_alone"] = [t for t in new_fail if t not in still]
            new_fail = still
            run("git checkout -- .", wt)
        report["tests"] = tests + (" + grpc(sequential)" if grpc else "")
        report["tests_summary_patched"] = (rp.stdout.strip().splitlines() or ["?"])[-1][-120:]
        report["new_test_failures_with_patch"] = new_fail[:10]
        ok = (not clean_failed) and patched_failed and not new_fail and fp is not None
        report["confirmed"] = ok
        if ok:
            dst = os.path.join(VERIF, "seeded", sid)
            os.makedirs(dst, exist_ok=True)
            shutil.copy(os.path.join(src, "patch.diff"), os.path.join(dst, "patch.diff"))
            shutil.copy(os.path.join(src, demo), os.path.join(dst, demo))
            if os.path.exists(os.path.join(src, "notes.md")):
                shutil.copy(os.path.join(src, "notes.md"), os.path.join(dst, "notes.md"))
            meta = {"property": prop, "needs_to_manifest": needs, "origin": "independent sub-agent given only the property text and a scratch worktree",
                    "confirmed_by": {"demo_on_clean_tree": "passes", "demo_with_patch": "fails", "tests_run_with_patch": report["tests"],
                                     "tests_result": report["tests_summary_patched"], "new_failures_vs_clean_tree": []}}
            json.dump(meta, open(os.path.join(dst, "meta.json"), "w"), indent=1)
        print(json.dumps(report, indent=1))
        return 0 if ok else 1
    finally:
        subprocess.run(["git", "-C", "/repo", "worktree", "remove", "--force", wt], capture_output=True)
        for f in os.listdir("/tmp"):
            if f.startswith(sid + "_") and f.endswith(".xml"):
                os.remove(os.path.join("/tmp", f))


if __name__ == "__main__":
    sys.exit(main(sys.argv[1:]))
